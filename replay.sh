#!/bin/bash
# usage: replay.sh <replay file>: re-executes a recorded violation on a fresh instrumented copy
cd "$(dirname "$0")" || exit 2
. scripts/lib.sh
SCR=$(mktemp -d "${TMPDIR:-/tmp}/verif-replay.XXXXXX") || exit 2
trap 'rm -rf "$SCR"' EXIT
prepare_scratch "$SCR" || exit 2
FLAGS=""
grep -q '"property": *"C14"' "$1" && FLAGS="-race"
build_vcheck "$SCR" $FLAGS > "$SCR/build.log" 2>&1 || { tail -20 "$SCR/build.log" >&2; exit 2; }
"$SCR/vcheck" -replay "$1"
