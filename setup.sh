#!/bin/bash
# Builds the framework from files on disk only (offline) and warms the build cache.
set -e
cd "$(dirname "$0")"
. scripts/lib.sh
mkdir -p bin evidence replays
( cd tools/instrument && cat > go.mod <<'EOM'
module verif/instrument
go 1.21
EOM
go build -o ../../bin/instrument . )
SCR=$(mktemp -d /tmp/verif-setup.XXXXXX)
trap 'rm -rf "$SCR"' EXIT
prepare_scratch "$SCR"
build_vcheck "$SCR"
build_vcheck "$SCR" -race
echo "setup ok"
