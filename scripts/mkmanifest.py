#!/usr/bin/env python3
# Regenerates /verif/MANIFEST.json from the table below (kept in one place so it stays valid).
import json
E1="stateless model checking of the implementation: controlled scheduler over every atomic/lock operation, DFS over schedules with happens-before state caching + sleep sets (preemption-bounded fallback for scenarios above the state cap)"
E2="explicit-state breadth-first search over call/clock-event sequences applied to the real code, reference-model oracle on every transition"
NOTE_E1="sequentially consistent interleavings of hooked operations; DRF for plain accesses (C14); 2-3 threads with 1-2 calls each; 32/64-bucket tables; table-driven hashes force bucket/tag collisions; instrumented scratch copy = import-path substitution only"
NOTE_E2="single goroutine, virtual clock, janitor off; finite alphabets of keys/values/TTLs; layout-independent state key (layout independence is C11)"
C={
"C01":("E2","Every call sequence over the cache alphabet (2 keys, TTL arguments incl. both sentinels, 0, negative, 1-5ns; clock steps of 1-2ns so that every entry is observed at e-1, e, e+1) is explored breadth-first to a fixpoint of the canonical state space for Cache, CacheOf[string,any] and CacheOf[int,int]; every return value, flag, instant, TTL, Range/Items content, Count and the physical entries are compared with a TTL reference model on every transition.",NOTE_E2,E2+" (TTL map)","DESIGN.md §4, §6 C01"),
"C02":("E1","All schedules of generated 2-thread (thorough: 3-thread) Cache/CacheOf scenarios - every pair of calls on one key that is absent, live, live-with-ttl or expired-uncleaned, bucket mates, cleanup passes standing in for the janitor - run on the real code; each complete history (plus quiescent Gets) is checked with porcupine against the TTL-map semantics (DeleteExpired and Range expanded per key).",NOTE_E1+"; virtual clock frozen during the concurrent phase",E1+"; porcupine linearizability oracle against a TTL-map model","DESIGN.md §3, §6 C02"),
"C03":("E1","All schedules of generated Map scenarios incl. slot reuse, overflow chains, grow, shrink and Clear in flight; every complete history is checked for linearizability against map[string]interface{} with porcupine, including quiescent reads of every key.",NOTE_E1,E1+"; porcupine linearizability oracle","DESIGN.md §3, §6 C03"),
"C04":("E1","Same exhaustive schedule exploration for MapOf[int,int], MapOf[string,string], MapOf[struct,int] built with adversarial hashers (keys colliding in bucket and in the 7-bit h2).",NOTE_E1,E1+"; porcupine linearizability oracle","DESIGN.md §3, §6 C04"),
"C05":("E1","All schedules of 2-3 racers on one key (absent, live, expired-uncleaned) using LoadOrStore/LoadOrCompute/GetOrSet/GetOrCompute and Compute/LoadAndStore/GetAndSet/GetAndRefresh, with bucket-mate writers and grow-induced retries; the history including the user-function invocation count and the (old,loaded) arguments it received must be linearizable.",NOTE_E1,E1+"; linearizability oracle extended with user-function call counts and arguments","DESIGN.md §6 C05"),
"C06":("E1+E2","(a) all schedules of removers (Delete, GetAndDelete, DeleteExpired) against each other and against writers on a live or expired key with a recording callback: the per-call callback ledger must be justified by a linearization (each stored value delivered at most once, with its key, by the call that removed it); (b) every call sequence (E2 search to fixpoint) with callbacks installed at construction or swapped: the exact set of deliveries per call is compared with the model; the callback re-enters the cache.",NOTE_E1+"; "+NOTE_E2,E1+" + "+E2+"; callback-ledger oracle","DESIGN.md §6 C06"),
"C07":("E1","Range/Items against 1-2 writers, grows, shrinks, Clear and cleanup passes on Map, MapOf, Cache, CacheOf; visitor mutations of the same container; oracle: no key twice, per-key visit linearizable as a lookup inside the traversal interval (covers 'current at some moment' and 'stable keys are visited'), expired entries never visited, quiescent Range == Loads.",NOTE_E1,E1+"; traversal expanded into per-key pseudo-lookups checked by porcupine","DESIGN.md §6 C07"),
"C08":("E1","After every explored concurrent history of the insert/delete/resize/Clear families the quiescent Size/Count must equal the number of Range visits, the number of physically present entries and the striped counter; Count is also compared on every transition of the C01 sequence search.",NOTE_E1,E1+"; quiescent-agreement oracle","DESIGN.md §6 C08"),
"C13":("E1","Deadlock (no enabled thread), livelock/non-termination (step horizon) and leaked locks (a quiescent epilogue that reads, writes and deletes every scenario key under the scheduler) are monitored in every execution of the C02/C03/C04/C07 families plus resize hand-off, abandoned-shrink, early-return and re-entrant visitor/callback families.",NOTE_E1+"; spin-wait loops are modelled as blocking until the awaited word is written (checked: the first operation after a wake must re-read that word)",E1+"; deadlock/horizon/lock-leak monitors","DESIGN.md §6 C13"),
"C16":("E1","A reader thread (Load, hit path of LoadOrStore/LoadOrCompute, Size, Get, GetWithExpiration, GetWithTTL, Count) is explored against a staller (writes, Compute with a park point inside the user function, resizes, Clear, Range, cleanup pass); in every reachable scheduler state the reader must be enabled (never blocked on a lock, a spin-wait or a condition) and must finish within a fixed number of its own steps; results are checked for linearizability.",NOTE_E1,E1+"; never-disabled + bounded-own-steps monitors","DESIGN.md §6 C16"),
}
props=[json.loads(l) for l in open('/verif/properties.jsonl')]
checks=[]
for id,(eng,text,note,tech,ref) in C.items():
    checks.append({"property_id":id,"quick_cmd":f"./check.sh {id} quick","thorough_cmd":f"./check.sh {id} thorough",
      "evidence_file":f"/verif/evidence/{id}.json","replay_cmd_template":"./replay.sh {path}","engine":eng,
      "level_claimed":{"category":"model_checking","text":text,"design_ref":ref},"level_note":note,"technique":tech})
try:
    extra=json.load(open('/verif/scripts/manifest_extra.json'))
except Exception:
    extra={"checks":[],"not_applicable":[]}
checks+=extra.get("checks",[])
done={c["property_id"] for c in checks}
na=[x for x in extra.get("not_applicable",[]) if x["property_id"] not in done]
nadone={x["property_id"] for x in na}
na+= [{"property_id":p["id"],"reason":"check under construction in this session (not yet claimed)"} for p in props if p["id"] not in done and p["id"] not in nadone]
checks.sort(key=lambda c:c["property_id"])
m={"version":1,"setup_cmd":"./setup.sh",
 "hooks":{"guard":"verif","enable":"no source change in /repo: every check copies the working tree to a scratch directory, substitutes the imports sync, sync/atomic, time and the selector runtime.Gosched by the packages under /verif/shim and adds verif_*.go files (tools/instrument); the scratch copy is built and deleted by the check","baseline_off_cmd":"cd /repo && GOFLAGS=-mod=mod GOPROXY=off GOSUMDB=off GOTOOLCHAIN=local go test -json -vet=off -count=1 -timeout 25m ./...","source_commits":[],"add_only":True},
 "engines":[{"name":"E1","path":"/verif/shim/sched + /verif/harness/vcheck/explore.go","serves_properties":sorted(k for k,v in C.items() if "E1" in v[0]),"kind_free_text":"stateless exploration of all schedules of the real code under a controlled scheduler (DFS over choice sequences, happens-before state caching, sleep sets, preemption-bounded fallback)"},
  {"name":"E2","path":"/verif/harness/vcheck/e2.go","serves_properties":sorted(k for k,v in C.items() if "E2" in v[0]),"kind_free_text":"explicit-state breadth-first search over call/event sequences on the real code with a reference model; states are represented by the shortest event sequence reaching them and rebuilt by replay"}],
 "checks":checks,"not_applicable":na,"notes":"see DESIGN.md"}
json.dump(m,open('/verif/MANIFEST.json','w'),indent=1)
print("claimed:",sorted(done),"not claimed:",[x["property_id"] for x in na])
