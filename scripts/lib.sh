# shared helpers for setup.sh / check.sh (sourced)
export GOFLAGS=-mod=mod GOPROXY=off GOSUMDB=off GOTOOLCHAIN=local
export GOCACHE=${GOCACHE:-/root/.cache/go-build}
# the tree this file belongs to (a snapshot of /verif run elsewhere must use its own shims and harness)
VERIF_ROOT=${VERIF_ROOT:-$(cd "$(dirname "${BASH_SOURCE[0]}")/.." && pwd)}
VERIF_SRC=${VERIF_SRC:-/repo}

# prepare_scratch <dir>: instrumented copy of $VERIF_SRC with shims and harness in <dir>/src
prepare_scratch() {
  local scr=$1
  mkdir -p "$scr/src"
  rsync -a --exclude .git --exclude examples "$VERIF_SRC"/ "$scr/src/" || return 2
  "$VERIF_ROOT/bin/instrument" "$scr/src" > "$scr/instrument.log" 2>&1 || { cat "$scr/instrument.log" >&2; return 2; }
  mkdir -p "$scr/src/internal/vshim" "$scr/src/zzverif"
  cp -r "$VERIF_ROOT"/shim/sched "$VERIF_ROOT"/shim/atomic "$VERIF_ROOT"/shim/sync "$VERIF_ROOT"/shim/time "$VERIF_ROOT"/shim/rt "$scr/src/internal/vshim/"
  cp "$VERIF_ROOT/shim/xsync_hooks.go.txt" "$scr/src/internal/xsync/verif_hooks.go"
  cp "$VERIF_ROOT/shim/xsync_struct.go.txt" "$scr/src/internal/xsync/verif_struct.go"
  if ! ( cd "$scr/src" && go build ./internal/xsync ) >/dev/null 2>&1; then
    # the bucket structs no longer have the fields the chain views name: fall back to the stub (C11 loses its slot-layout key)
    cp "$VERIF_ROOT/shim/xsync_struct_stub.go.txt" "$scr/src/internal/xsync/verif_struct.go"
    echo "instrument: structural chain views unavailable for this tree, stub installed" >> "$scr/instrument.log"
  fi
  cp "$VERIF_ROOT/shim/xsync_bits.go.txt" "$scr/src/internal/xsync/verif_bits.go"
  if ! ( cd "$scr/src" && go build ./internal/xsync ) >/dev/null 2>&1; then
    cp "$VERIF_ROOT/shim/xsync_bits_stub.go.txt" "$scr/src/internal/xsync/verif_bits.go"
    echo "instrument: h1/h2 of MapOf not found by name, historical bit split assumed" >> "$scr/instrument.log"
  fi
  cp "$VERIF_ROOT/shim/cache_export.go.txt" "$scr/src/verif_export.go"
  cp -r "$VERIF_ROOT"/harness/* "$scr/src/zzverif/"
  ( cd "$scr/src" && go mod edit -go=1.21 -require=github.com/anishathalye/porcupine@v1.3.0 ) || return 2
}

# build_vcheck <dir> [extra go build flags...]: builds <dir>/vcheck
build_vcheck() {
  local scr=$1; shift
  ( cd "$scr/src" && go build -trimpath "$@" -o "$scr/vcheck" ./zzverif/vcheck ) 
}

# snapshot_root: path of a copy of the committed /verif tree (HEAD), shared by long evaluation pipelines so that
# edits to the working tree cannot break or change their checks half-way. One copy per commit under /tmp.
snapshot_root() {
  local c d
  c=$(git -C "$VERIF_ROOT" rev-parse --short=12 HEAD) || return 2
  d=/tmp/verif-snap-$c
  if mkdir "$d.lock" 2>/dev/null; then
    if [ ! -x "$d/bin/instrument" ]; then
      rm -rf "$d"; mkdir -p "$d" && git -C "$VERIF_ROOT" archive HEAD | tar -x -C "$d" && ( cd "$d" && ./setup.sh >/dev/null 2>&1 )
    fi
    rmdir "$d.lock"
  else
    while [ -d "$d.lock" ]; do sleep 2; done
  fi
  echo "$d"
}
