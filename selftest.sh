#!/bin/bash
# Cross-checks of the machinery itself (not a property check):
#  1. the repository's own tests on the instrumented copy with the shims in pass-through mode;
#  2. the explorer with and without sleep sets visits the same states and outcomes on a sample of scenarios.
cd "$(dirname "$0")" || exit 2
. scripts/lib.sh
[ -x bin/instrument ] || ./setup.sh >/dev/null 2>&1 || exit 2
SCR=$(mktemp -d "${TMPDIR:-/tmp}/verif-selftest.XXXXXX") || exit 2
trap 'rm -rf "$SCR"' EXIT
prepare_scratch "$SCR" || exit 2
( cd "$SCR/src" && go test -vet=off -count=1 -timeout 20m . ) || { echo "repository tests fail on the instrumented copy"; exit 2; }
build_vcheck "$SCR" || exit 2
"$SCR/vcheck" -prop selftest
