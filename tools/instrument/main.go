// instrument rewrites a scratch copy of fufuok/cache so that its
// synchronisation, yields, clock reads, seeds and hashes go through the vshim
// packages. It substitutes import paths and identifiers; it never edits
// statements, so it follows whatever the working tree contains.
//
// usage: instrument <module-root>
package main

import (
	"bytes"
	"fmt"
	"go/ast"
	"go/format"
	"go/parser"
	"go/token"
	"os"
	"path/filepath"
	"strconv"
	"strings"
)

const shimBase = "github.com/fufuok/cache/internal/vshim/"

var counts = map[string]int{}

func main() {
	if len(os.Args) != 2 {
		fmt.Fprintln(os.Stderr, "usage: instrument <module-root>")
		os.Exit(2)
	}
	root := os.Args[1]
	for _, dir := range []string{".", "internal/xsync"} {
		files, err := filepath.Glob(filepath.Join(root, dir, "*.go"))
		if err != nil {
			die(err)
		}
		for _, f := range files {
			b := filepath.Base(f)
			if strings.HasSuffix(b, "_test.go") || strings.HasPrefix(b, "verif_") {
				continue
			}
			if err := rewrite(f, dir == "."); err != nil {
				die(fmt.Errorf("%s: %v", f, err))
			}
		}
	}
	total := 0
	for k, v := range counts {
		fmt.Printf("instrument: %-28s %d\n", k, v)
		total += v
	}
	fmt.Printf("instrument: total substitutions %d\n", total)
	for _, must := range []string{"import sync/atomic", "import sync", "import time", "runtime.Gosched", "makeSeed", "hashString", "defaultHasher"} {
		if counts[must] == 0 {
			die(fmt.Errorf("no substitution of kind %q: the code under test no longer matches the instrumenter", must))
		}
	}
}

func die(err error) {
	fmt.Fprintln(os.Stderr, "instrument:", err)
	os.Exit(2)
}

var renames = map[string]string{
	"makeSeed":      "verifMakeSeed",
	"hashString":    "verifHashString",
	"defaultHasher": "verifDefaultHasher",
}

func rewrite(path string, isRoot bool) error {
	fset := token.NewFileSet()
	f, err := parser.ParseFile(fset, path, nil, parser.ParseComments)
	if err != nil {
		return err
	}
	changed := false
	runtimeName := ""
	for _, imp := range f.Imports {
		p, _ := strconv.Unquote(imp.Path.Value)
		switch p {
		case "sync/atomic":
			imp.Path.Value = strconv.Quote(shimBase + "atomic")
			counts["import sync/atomic"]++
			changed = true
		case "sync":
			imp.Path.Value = strconv.Quote(shimBase + "sync")
			counts["import sync"]++
			changed = true
		case "time":
			if isRoot {
				imp.Path.Value = strconv.Quote(shimBase + "time")
				counts["import time"]++
				changed = true
			}
		case "runtime":
			runtimeName = "runtime"
			if imp.Name != nil {
				runtimeName = imp.Name.Name
			}
		}
	}
	// runtime.Gosched -> rt.Gosched
	usesRT := false
	otherRuntimeUse := false
	if runtimeName != "" && runtimeName != "_" && runtimeName != "." {
		ast.Inspect(f, func(n ast.Node) bool {
			if se, ok := n.(*ast.SelectorExpr); ok {
				if id, ok := se.X.(*ast.Ident); ok && id.Name == runtimeName && id.Obj == nil {
					if se.Sel.Name == "Gosched" {
						id.Name = "vshimrt"
						usesRT = true
						counts["runtime.Gosched"]++
					} else {
						otherRuntimeUse = true
					}
				}
			}
			return true
		})
	}
	if usesRT {
		changed = true
		// add import; drop "runtime" if now unused
		for _, decl := range f.Decls {
			gd, ok := decl.(*ast.GenDecl)
			if !ok || gd.Tok != token.IMPORT {
				continue
			}
			var specs []ast.Spec
			for _, s := range gd.Specs {
				is := s.(*ast.ImportSpec)
				p, _ := strconv.Unquote(is.Path.Value)
				if p == "runtime" && !otherRuntimeUse {
					continue
				}
				specs = append(specs, s)
			}
			gd.Specs = specs
		}
		newImp := &ast.ImportSpec{Name: ast.NewIdent("vshimrt"), Path: &ast.BasicLit{Kind: token.STRING, Value: strconv.Quote(shimBase + "rt")}}
		f.Decls = append([]ast.Decl{&ast.GenDecl{Tok: token.IMPORT, Specs: []ast.Spec{newImp}}}, f.Decls...)
	}
	// identifier redirection (uses only, not the declarations)
	if !isRoot {
		declNames := map[*ast.Ident]bool{}
		for _, d := range f.Decls {
			if fd, ok := d.(*ast.FuncDecl); ok && fd.Recv == nil {
				declNames[fd.Name] = true
			}
		}
		ast.Inspect(f, func(n ast.Node) bool {
			id, ok := n.(*ast.Ident)
			if !ok || declNames[id] {
				return true
			}
			if to, ok := renames[id.Name]; ok {
				counts[id.Name]++
				id.Name = to
				changed = true
			}
			return true
		})
	}
	if !changed {
		return nil
	}
	var buf bytes.Buffer
	if err := format.Node(&buf, fset, f); err != nil {
		return err
	}
	return os.WriteFile(path, buf.Bytes(), 0o644)
}
