// instrument rewrites a scratch copy of fufuok/cache so that its
// synchronisation, yields, clock reads, seeds and hashes go through the vshim
// packages. It substitutes import paths and identifiers; it never edits
// statements, so it follows whatever the working tree contains.
//
// usage: instrument <module-root>
package main

import (
	"bytes"
	"fmt"
	"go/ast"
	"go/format"
	"go/parser"
	"go/token"
	"os"
	"path/filepath"
	"strconv"
	"strings"
)

const shimBase = "github.com/fufuok/cache/internal/vshim/"

var counts = map[string]int{}

func main() {
	if len(os.Args) != 2 {
		fmt.Fprintln(os.Stderr, "usage: instrument <module-root>")
		os.Exit(2)
	}
	root := os.Args[1]
	discoverHashHooks(filepath.Join(root, "internal/xsync"))
	for _, dir := range []string{".", "internal/xsync"} {
		files, err := filepath.Glob(filepath.Join(root, dir, "*.go"))
		if err != nil {
			die(err)
		}
		// untyped constants of the whole package (a go statement may pass one declared in another file)
		pkgConsts = map[string]bool{}
		for _, f := range files {
			b := filepath.Base(f)
			if strings.HasSuffix(b, "_test.go") || strings.HasPrefix(b, "verif_") {
				continue
			}
			if af, err := parser.ParseFile(token.NewFileSet(), f, nil, 0); err == nil {
				for n := range untypedConsts(af) {
					pkgConsts[n] = true
				}
			}
		}
		for _, f := range files {
			b := filepath.Base(f)
			if strings.HasSuffix(b, "_test.go") || strings.HasPrefix(b, "verif_") {
				continue
			}
			if err := rewrite(f, dir == "."); err != nil {
				die(fmt.Errorf("%s: %v", f, err))
			}
		}
	}
	total := 0
	for k, v := range counts {
		fmt.Printf("instrument: %-28s %d\n", k, v)
		total += v
	}
	fmt.Printf("instrument: total substitutions %d\n", total)
	for _, must := range []string{"import sync/atomic", "import sync", "import time", "runtime.Gosched", "makeSeed", "hashString", "defaultHasher"} {
		if counts[must] == 0 {
			die(fmt.Errorf("no substitution of kind %q: the code under test no longer matches the instrumenter", must))
		}
	}
}

// untypedConsts: names declared as `const x = <literal>` (no type) in the file: copying them into a
// temporary would fix their type to the default one.
func untypedConsts(f *ast.File) map[string]bool {
	out := map[string]bool{}
	for _, d := range f.Decls {
		gd, ok := d.(*ast.GenDecl)
		if !ok || gd.Tok != token.CONST {
			continue
		}
		for _, sp := range gd.Specs {
			vs := sp.(*ast.ValueSpec)
			if vs.Type == nil {
				for _, n := range vs.Names {
					out[n.Name] = true
				}
			}
		}
	}
	return out
}

var pkgConsts = map[string]bool{}

func rewriteGoStmts(f *ast.File) int {
	consts := pkgConsts
	n := 0
	var visitList func(list []ast.Stmt)
	rewrite := func(gs *ast.GoStmt) ast.Stmt {
		n++
		call := gs.Call
		goCall := func(body *ast.FuncLit) ast.Stmt {
			return &ast.ExprStmt{X: &ast.CallExpr{Fun: &ast.SelectorExpr{X: ast.NewIdent("vshimrt"), Sel: ast.NewIdent("Go")}, Args: []ast.Expr{body}}}
		}
		if fl, ok := call.Fun.(*ast.FuncLit); ok && len(call.Args) == 0 {
			return goCall(fl)
		}
		var stmts []ast.Stmt
		tmp := func(e ast.Expr, name string) ast.Expr {
			switch x := e.(type) {
			case *ast.BasicLit:
				return e
			case *ast.Ident:
				if consts[x.Name] || x.Name == "nil" || x.Name == "true" || x.Name == "false" {
					return e
				}
			}
			id := ast.NewIdent(name)
			stmts = append(stmts, &ast.AssignStmt{Lhs: []ast.Expr{id}, Tok: token.DEFINE, Rhs: []ast.Expr{e}})
			return ast.NewIdent(name)
		}
		fun := tmp(call.Fun, fmt.Sprintf("vshimGoF%d", n))
		args := make([]ast.Expr, len(call.Args))
		for i, a := range call.Args {
			args[i] = tmp(a, fmt.Sprintf("vshimGoA%d_%d", n, i))
		}
		inner := &ast.CallExpr{Fun: fun, Args: args, Ellipsis: call.Ellipsis}
		body := &ast.FuncLit{Type: &ast.FuncType{Params: &ast.FieldList{}}, Body: &ast.BlockStmt{List: []ast.Stmt{&ast.ExprStmt{X: inner}}}}
		stmts = append(stmts, goCall(body))
		return &ast.BlockStmt{List: stmts}
	}
	visitList = func(list []ast.Stmt) {
		for i, st := range list {
			if gs, ok := st.(*ast.GoStmt); ok {
				list[i] = rewrite(gs)
			}
		}
	}
	ast.Inspect(f, func(nd ast.Node) bool {
		switch x := nd.(type) {
		case *ast.BlockStmt:
			visitList(x.List)
		case *ast.CaseClause:
			visitList(x.Body)
		case *ast.CommClause:
			visitList(x.Body)
		case *ast.LabeledStmt:
			if gs, ok := x.Stmt.(*ast.GoStmt); ok {
				x.Stmt = rewrite(gs)
			}
		}
		return true
	})
	return n
}

func die(err error) {
	fmt.Fprintln(os.Stderr, "instrument:", err)
	os.Exit(2)
}

// renames: package-level helper of internal/xsync -> hook; filled by discoverHashHooks.
// kindOf gives the canonical kind counted for each (so a renamed helper still counts as "hashString").
var (
	renames = map[string]string{}
	kindOf  = map[string]string{}
)

var hookOf = map[string]string{
	"makeSeed":      "verifMakeSeed",
	"hashString":    "verifHashString",
	"defaultHasher": "verifDefaultHasher",
}

func typeIs(e ast.Expr, name string) bool {
	id, ok := e.(*ast.Ident)
	return ok && id.Name == name
}

func flatParams(fl *ast.FieldList) []ast.Expr {
	var out []ast.Expr
	if fl == nil {
		return out
	}
	for _, f := range fl.List {
		n := len(f.Names)
		if n == 0 {
			n = 1
		}
		for i := 0; i < n; i++ {
			out = append(out, f.Type)
		}
	}
	return out
}

// discoverHashHooks finds the three helpers the layouts are controlled through: the table seed source
// (func() uint64), the string hash (func(string, uint64) uint64) and the generic default hasher
// (func[T comparable]() func(T, uint64) uint64). The current names are preferred; after a rename the
// helper is recognised by its signature if that signature is unique among the package-level functions.
func discoverHashHooks(dir string) {
	files, _ := filepath.Glob(filepath.Join(dir, "*.go"))
	cands := map[string][]string{}
	have := map[string]bool{}
	for _, f := range files {
		b := filepath.Base(f)
		if strings.HasSuffix(b, "_test.go") || strings.HasPrefix(b, "verif_") {
			continue
		}
		af, err := parser.ParseFile(token.NewFileSet(), f, nil, 0)
		if err != nil {
			die(err)
		}
		for _, d := range af.Decls {
			fd, ok := d.(*ast.FuncDecl)
			if !ok || fd.Recv != nil {
				continue
			}
			have[fd.Name.Name] = true
			ps, rs := flatParams(fd.Type.Params), flatParams(fd.Type.Results)
			ntp := len(flatParams(fd.Type.TypeParams))
			switch {
			case ntp == 0 && len(ps) == 0 && len(rs) == 1 && typeIs(rs[0], "uint64"):
				cands["makeSeed"] = append(cands["makeSeed"], fd.Name.Name)
			case ntp == 0 && len(ps) == 2 && typeIs(ps[0], "string") && typeIs(ps[1], "uint64") && len(rs) == 1 && typeIs(rs[0], "uint64"):
				cands["hashString"] = append(cands["hashString"], fd.Name.Name)
			case ntp == 1 && len(ps) == 0 && len(rs) == 1:
				if ft, ok := rs[0].(*ast.FuncType); ok {
					fp, fr := flatParams(ft.Params), flatParams(ft.Results)
					if len(fp) == 2 && typeIs(fp[1], "uint64") && len(fr) == 1 && typeIs(fr[0], "uint64") {
						cands["defaultHasher"] = append(cands["defaultHasher"], fd.Name.Name)
					}
				}
			}
		}
	}
	orig := map[string]string{}
	defer func() {
		if len(orig) == len(hookOf) {
			src := fmt.Sprintf("//go:build go1.18\n\npackage xsync\n\n// generated by /verif/tools/instrument: the helpers of the code under test behind the hooks\n\n"+
				"func verifOrigMakeSeed() uint64 { return %s() }\n\nfunc verifOrigHashString(s string, seed uint64) uint64 { return %s(s, seed) }\n\n"+
				"func verifOrigDefaultHasher[T comparable]() func(T, uint64) uint64 { return %s[T]() }\n", orig["makeSeed"], orig["hashString"], orig["defaultHasher"])
			if err := os.WriteFile(filepath.Join(dir, "verif_names.go"), []byte(src), 0o644); err != nil {
				die(err)
			}
		}
	}()
	for kind, hook := range hookOf {
		name := ""
		switch {
		case have[kind]:
			name = kind
		case len(cands[kind]) == 1:
			name = cands[kind][0]
			fmt.Printf("instrument: %s recognised by signature as %s\n", kind, name)
		}
		if name != "" {
			renames[name] = hook
			kindOf[name] = kind
			orig[kind] = name
		}
	}
}

func rewrite(path string, isRoot bool) error {
	fset := token.NewFileSet()
	f, err := parser.ParseFile(fset, path, nil, parser.ParseComments)
	if err != nil {
		return err
	}
	changed := false
	runtimeName := ""
	for _, imp := range f.Imports {
		p, _ := strconv.Unquote(imp.Path.Value)
		switch p {
		case "sync/atomic":
			imp.Path.Value = strconv.Quote(shimBase + "atomic")
			counts["import sync/atomic"]++
			changed = true
		case "sync":
			imp.Path.Value = strconv.Quote(shimBase + "sync")
			counts["import sync"]++
			changed = true
		case "time":
			if isRoot {
				imp.Path.Value = strconv.Quote(shimBase + "time")
				counts["import time"]++
				changed = true
			}
		case "runtime":
			runtimeName = "runtime"
			if imp.Name != nil {
				runtimeName = imp.Name.Name
			}
		}
	}
	// runtime.Gosched -> rt.Gosched
	usesRT := false
	otherRuntimeUse := false
	if runtimeName != "" && runtimeName != "_" && runtimeName != "." {
		ast.Inspect(f, func(n ast.Node) bool {
			if se, ok := n.(*ast.SelectorExpr); ok {
				if id, ok := se.X.(*ast.Ident); ok && id.Name == runtimeName && id.Obj == nil {
					if se.Sel.Name == "Gosched" {
						id.Name = "vshimrt"
						usesRT = true
						counts["runtime.Gosched"]++
					} else {
						otherRuntimeUse = true
					}
				}
			}
			return true
		})
	}
	// go statements -> vshimrt.Go(func() { ... }): a goroutine started by the code under test while the
	// scheduler is attached becomes a scheduled thread. The function value and the arguments are evaluated
	// at the statement, as the language says (temporaries), except literals and untyped constants.
	nGo := rewriteGoStmts(f)
	if nGo > 0 {
		counts["go statement"] += nGo
		usesRT = true
	}
	if usesRT {
		changed = true
		// add import; drop "runtime" if now unused
		for _, decl := range f.Decls {
			gd, ok := decl.(*ast.GenDecl)
			if !ok || gd.Tok != token.IMPORT {
				continue
			}
			var specs []ast.Spec
			for _, s := range gd.Specs {
				is := s.(*ast.ImportSpec)
				p, _ := strconv.Unquote(is.Path.Value)
				if p == "runtime" && !otherRuntimeUse {
					continue
				}
				specs = append(specs, s)
			}
			gd.Specs = specs
		}
		newImp := &ast.ImportSpec{Name: ast.NewIdent("vshimrt"), Path: &ast.BasicLit{Kind: token.STRING, Value: strconv.Quote(shimBase + "rt")}}
		f.Decls = append([]ast.Decl{&ast.GenDecl{Tok: token.IMPORT, Specs: []ast.Spec{newImp}}}, f.Decls...)
	}
	// identifier redirection (uses only, not the declarations)
	if !isRoot {
		declNames := map[*ast.Ident]bool{}
		for _, d := range f.Decls {
			if fd, ok := d.(*ast.FuncDecl); ok && fd.Recv == nil {
				declNames[fd.Name] = true
			}
		}
		ast.Inspect(f, func(n ast.Node) bool {
			id, ok := n.(*ast.Ident)
			if !ok || declNames[id] {
				return true
			}
			if to, ok := renames[id.Name]; ok {
				counts[kindOf[id.Name]]++
				id.Name = to
				changed = true
			}
			return true
		})
	}
	if !changed {
		return nil
	}
	var buf bytes.Buffer
	if err := format.Node(&buf, fset, f); err != nil {
		return err
	}
	return os.WriteFile(path, buf.Bytes(), 0o644)
}
