// Package sync mirrors the standard sync package. Mutex, RWMutex, Cond and
// Once are scheduling points under the controlled scheduler and behave like
// the originals in pass-through mode.
package sync

import (
	rs "sync"
	"unsafe"

	"github.com/fufuok/cache/internal/vshim/atomic"
	"github.com/fufuok/cache/internal/vshim/sched"
)

type (
	Locker    = rs.Locker
	WaitGroup = rs.WaitGroup
	Pool      = rs.Pool
	Map       = rs.Map
)

// Mutex has the size of sync.Mutex (8 bytes): bucket layouts depend on it.
type Mutex struct{ m rs.Mutex }

func (m *Mutex) Lock() {
	if sched.Dying() {
		return
	}
	sched.Point(sched.KLock, uintptr(unsafe.Pointer(m)))
	if sched.Active() {
		// granted means no scheduled thread holds it; if the real mutex is locked anyway it was
		// leaked by an earlier phase (e.g. a call that returned without unlocking)
		if !m.m.TryLock() {
			sched.Stuck("mutex is locked although no thread holds it: leaked by an earlier call")
		}
		return
	}
	m.m.Lock()
}

func (m *Mutex) Unlock() {
	if sched.Dying() {
		return
	}
	sched.Point(sched.KUnlock, uintptr(unsafe.Pointer(m)))
	m.m.Unlock()
}

func (m *Mutex) TryLock() bool {
	sched.Point(sched.KRMW, uintptr(unsafe.Pointer(m)))
	ok := m.m.TryLock()
	if ok && sched.Active() {
		sched.NoteLocked(uintptr(unsafe.Pointer(m)))
	}
	return ok
}

// rawUnlock releases the real mutex without a scheduling point (the
// scheduler has already accounted for it as part of Cond.Wait).
func (m *Mutex) rawUnlock() { m.m.Unlock() }

type rawUnlocker interface{ rawUnlock() }

type RWMutex struct{ m rs.RWMutex }

func (m *RWMutex) Lock() {
	if sched.Dying() {
		return
	}
	sched.Point(sched.KLock, uintptr(unsafe.Pointer(m)))
	if sched.Active() {
		if !m.m.TryLock() {
			sched.Stuck("rwmutex is locked although no thread holds it: leaked by an earlier call")
		}
		return
	}
	m.m.Lock()
}
func (m *RWMutex) Unlock() {
	if sched.Dying() {
		return
	}
	sched.Point(sched.KUnlock, uintptr(unsafe.Pointer(m)))
	m.m.Unlock()
}
func (m *RWMutex) RLock() {
	if sched.Dying() {
		return
	}
	sched.Point(sched.KRLock, uintptr(unsafe.Pointer(m)))
	if sched.Active() {
		if !m.m.TryRLock() {
			sched.Stuck("rwmutex is write-locked although no thread holds it: leaked by an earlier call")
		}
		return
	}
	m.m.RLock()
}
func (m *RWMutex) RUnlock() {
	if sched.Dying() {
		return
	}
	sched.Point(sched.KRUnlock, uintptr(unsafe.Pointer(m)))
	m.m.RUnlock()
}
func (m *RWMutex) RLocker() Locker { return (*rlocker)(m) }

type rlocker RWMutex

func (r *rlocker) Lock()   { (*RWMutex)(r).RLock() }
func (r *rlocker) Unlock() { (*RWMutex)(r).RUnlock() }

// Cond may be copied before first use, like sync.Cond.
type Cond struct {
	L Locker
	c rs.Cond
}

func NewCond(l Locker) *Cond { return &Cond{L: l} }

func (c *Cond) Wait() {
	if sched.Dying() {
		return
	}
	if sched.Active() {
		ru, ok := c.L.(rawUnlocker)
		if !ok {
			panic("vshim/sync: Cond.L is not a vshim Mutex")
		}
		// atomically: enqueue as waiter and release L
		sched.Point2(sched.KCondWait, uintptr(unsafe.Pointer(c)), lockerAddr(c.L))
		ru.rawUnlock()
		// blocked until a later Signal/Broadcast
		sched.Point(sched.KCondWake, uintptr(unsafe.Pointer(c)))
		c.L.Lock()
		return
	}
	if c.c.L == nil {
		c.c.L = c.L // the caller holds c.L
	}
	c.c.Wait()
}

func lockerAddr(l Locker) uintptr {
	switch x := l.(type) {
	case *Mutex:
		return uintptr(unsafe.Pointer(x))
	case *RWMutex:
		return uintptr(unsafe.Pointer(x))
	}
	return 0
}

func (m *RWMutex) rawUnlock() { m.m.Unlock() }

func (c *Cond) Signal() {
	sched.Point(sched.KCondSignal, uintptr(unsafe.Pointer(c)))
	c.c.Signal()
}

func (c *Cond) Broadcast() {
	sched.Point(sched.KCondBroadcast, uintptr(unsafe.Pointer(c)))
	c.c.Broadcast()
}

// Once built from scheduled primitives so that a second caller blocks in the
// scheduler, not in the runtime.
type Once struct {
	done uint32
	m    Mutex
}

func (o *Once) Do(f func()) {
	if atomic.LoadUint32(&o.done) == 0 {
		o.m.Lock()
		defer o.m.Unlock()
		if o.done == 0 {
			defer atomic.StoreUint32(&o.done, 1)
			f()
		}
	}
}

func OnceFunc(f func()) func() {
	var o Once
	return func() { o.Do(f) }
}
