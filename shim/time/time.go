// Package time mirrors the parts of the standard time package that package
// cache can use, with a virtual clock and capturable tickers. With the virtual
// clock off (default) everything is the real thing.
package time

import (
	"sync"
	"sync/atomic"
	rt "time"
	"unsafe"

	"github.com/fufuok/cache/internal/vshim/sched"
)

type (
	Time       = rt.Time
	Duration   = rt.Duration
	Month      = rt.Month
	Weekday    = rt.Weekday
	Location   = rt.Location
	ParseError = rt.ParseError
)

const (
	Nanosecond  = rt.Nanosecond
	Microsecond = rt.Microsecond
	Millisecond = rt.Millisecond
	Second      = rt.Second
	Minute      = rt.Minute
	Hour        = rt.Hour

	RFC3339     = rt.RFC3339
	RFC3339Nano = rt.RFC3339Nano
)

var (
	UTC   = rt.UTC
	Local = rt.Local
)

func Unix(sec, nsec int64) Time { return rt.Unix(sec, nsec) }
func UnixMilli(ms int64) Time   { return rt.UnixMilli(ms) }
func UnixMicro(us int64) Time   { return rt.UnixMicro(us) }
func Date(y int, m Month, d, h, mi, s, ns int, loc *Location) Time {
	return rt.Date(y, m, d, h, mi, s, ns, loc)
}
func ParseDuration(s string) (Duration, error) { return rt.ParseDuration(s) }

var (
	virtual atomic.Bool
	vnow    atomic.Int64
	capture atomic.Bool
	// shared: the virtual clock is advanced by a scheduled thread, so reading and advancing it are
	// scheduling points (a load / a store of the clock word) of the controlled scheduler
	shared atomic.Bool
)

func clockAddr() uintptr { return uintptr(unsafe.Pointer(&vnow)) }

// Now returns the virtual instant when the virtual clock is on.
func Now() Time {
	if virtual.Load() {
		if shared.Load() {
			sched.Point(sched.KLoad, clockAddr())
		}
		return rt.Unix(0, vnow.Load())
	}
	return rt.Now()
}

func Since(t Time) Duration { return Now().Sub(t) }
func Until(t Time) Duration { return t.Sub(Now()) }

// Sleep: with captured timers a sleeper waits for the harness to fire it (a janitor built on Sleep
// is driven like one built on a Ticker); with only the virtual clock on it returns at once.
func Sleep(d Duration) {
	if capture.Load() {
		<-NewTimer(d).C
		return
	}
	if virtual.Load() {
		return
	}
	rt.Sleep(d)
}

func After(d Duration) <-chan Time { return NewTimer(d).C }
func Tick(d Duration) <-chan Time  { return NewTicker(d).C }

// Timer mirrors time.Timer. In capture mode it never fires by itself: it is registered like a ticker
// (Period = its duration) and fired by the harness.
type Timer struct {
	C    <-chan Time
	real *rt.Timer
	cap  *CapturedTicker
}

func NewTimer(d Duration) *Timer {
	if capture.Load() {
		ct := &CapturedTicker{Period: d, c: make(chan Time), timer: true}
		capMu.Lock()
		captured = append(captured, ct)
		capMu.Unlock()
		return &Timer{C: ct.c, cap: ct}
	}
	r := rt.NewTimer(d)
	return &Timer{C: r.C, real: r}
}

func AfterFunc(d Duration, f func()) *Timer {
	if capture.Load() {
		t := NewTimer(d)
		go func() {
			<-t.cap.c
			f()
		}()
		return t
	}
	return &Timer{real: rt.AfterFunc(d, f)}
}

func (t *Timer) Stop() bool {
	if t.cap != nil {
		was := !t.cap.stopped.Load()
		t.cap.stopped.Store(true)
		return was
	}
	return t.real.Stop()
}

func (t *Timer) Reset(d Duration) bool {
	if t.cap != nil {
		was := !t.cap.stopped.Load()
		t.cap.Period = d
		t.cap.stopped.Store(false)
		return was
	}
	return t.real.Reset(d)
}

// ---- virtual clock control (harness side) ----

func VEnable(startNs int64) { vnow.Store(startNs); virtual.Store(true); shared.Store(false) }
func VDisable()             { virtual.Store(false) }
func VNow() int64           { return vnow.Load() }
func VSet(ns int64)         { vnow.Store(ns) }
func VAdvance(d Duration)   { vnow.Add(int64(d)) }

// VShared switches the scheduling points of the clock on or off.
func VShared(on bool) { shared.Store(on) }

// VAdvanceShared advances the clock as an operation of the calling scheduled thread.
func VAdvanceShared(d Duration) {
	sched.Point(sched.KStore, clockAddr())
	vnow.Add(int64(d))
}

// ---- tickers ----

type Ticker struct {
	C    <-chan Time
	real *rt.Ticker
	cap  *CapturedTicker
}

// CapturedTicker is a ticker created while capture mode was on. Its channel
// is unbuffered: Fire returns once the receiver has taken the tick.
type CapturedTicker struct {
	Period  Duration
	c       chan Time
	stopped atomic.Bool
	timer   bool // created by NewTimer / After / AfterFunc / Sleep
}

var (
	capMu    sync.Mutex
	captured []*CapturedTicker
)

func VCaptureTickers(on bool) {
	capMu.Lock()
	captured = nil
	capMu.Unlock()
	capture.Store(on)
}

func VCaptured() []*CapturedTicker {
	capMu.Lock()
	defer capMu.Unlock()
	return append([]*CapturedTicker(nil), captured...)
}

func (c *CapturedTicker) Stopped() bool { return c.stopped.Load() }

// Fire delivers one tick; it blocks until the receiver has taken it or the
// timeout (real time) expires, and reports whether it was taken.
func (c *CapturedTicker) Fire(timeout Duration) bool {
	if c.stopped.Load() {
		return false // the owner has stopped the ticker (the janitor has exited)
	}
	t := rt.NewTimer(timeout)
	defer t.Stop()
	select {
	case c.c <- Now():
		return true
	case <-t.C:
		return false
	}
}

func NewTicker(d Duration) *Ticker {
	if d <= 0 && !capture.Load() {
		panic("non-positive interval for NewTicker")
	}
	if capture.Load() {
		// (a captured ticker with a non-positive period is recorded, not a panic in a background
		// goroutine: the harness reports it)
		ct := &CapturedTicker{Period: d, c: make(chan Time)}
		capMu.Lock()
		captured = append(captured, ct)
		capMu.Unlock()
		return &Ticker{C: ct.c, cap: ct}
	}
	r := rt.NewTicker(d)
	return &Ticker{C: r.C, real: r}
}

func (t *Ticker) Stop() {
	if t.cap != nil {
		t.cap.stopped.Store(true)
		return
	}
	t.real.Stop()
}

func (t *Ticker) Reset(d Duration) {
	if t.cap != nil {
		t.cap.Period = d
		return
	}
	t.real.Reset(d)
}
