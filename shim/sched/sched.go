// Package sched is the controlled scheduler behind the vshim packages.
//
// Exactly one "thread" (a goroutine started by Run) executes at a time. Every
// hooked operation (atomic op, mutex op, cond op, Gosched, marker) calls
// Point before touching memory; Point decides which thread performs its
// pending operation next and hands the baton over. All bookkeeping is done
// inline by whichever goroutine holds the baton, in functions marked
// go:norace and using no Go maps, so that with -race the detector sees only
// the synchronisation performed by the code under test (hand-offs are wrapped
// in RaceDisable/RaceEnable).
package sched

import (
	"fmt"
	"runtime"
	"sync"
	"sync/atomic"
)

type Kind uint8

const (
	KStart Kind = iota
	KLoad
	KStore
	KRMW
	KLock
	KUnlock
	KRLock
	KRUnlock
	KCondWait
	KCondWake
	KCondSignal
	KCondBroadcast
	KYield
	KInvoke // harness marker: an API call begins
	KReturn // harness marker: an API call has returned
	KPark
	KEnd
)

var kindNames = [...]string{"start", "load", "store", "rmw", "lock", "unlock", "rlock", "runlock",
	"condwait", "condwake", "signal", "broadcast", "yield", "invoke", "return", "park", "end"}

func (k Kind) String() string { return kindNames[k] }

// MaxThreads bounds the threads of one execution: the harness threads plus the goroutines the code
// under test starts while the scheduler is attached (Go).
const MaxThreads = 6

type VC [MaxThreads]uint32

// Outcome of one execution.
type Outcome uint8

const (
	OComplete Outcome = iota
	OPruned           // reached an already visited state, or every enabled thread is asleep
	ODeadlock
	OHorizon
	OPanic
	OMonitor // a liveness monitor (C16) fired
	OInfra   // the scheduler's own assumptions were violated: no verdict
)

func (o Outcome) String() string {
	return [...]string{"complete", "pruned", "deadlock", "horizon", "panic", "monitor", "infra"}[o]
}

const (
	tsReady uint8 = iota
	tsParked
	tsCondWait
	tsFinished
)

const markAddr = 1 // pseudo address of the invoke/return markers

type thread struct {
	grant    chan struct{}
	pendK    Kind
	pendA    uintptr
	pendA2   uintptr
	state    uint8
	lastK    Kind
	lastA    uintptr
	parkA    uintptr
	woken    bool // parked thread has seen a write to parkA
	justWoke bool // next op must be a load of parkA
	signaled bool
	condSeq  int
	condA    uintptr
	vc       VC
	hash     uint64
	nops     int
	noBlock  bool // C16: this thread must never be disabled
	maxSteps int  // C16: 0 = unlimited
}

// PointRec describes one scheduling decision.
type PointRec struct {
	Enabled uint8 // bit mask of enabled threads
	Sleep   uint8 // threads that need not be explored from this state
	Tid     uint8 // chosen thread
	Kind    Kind
	PrevEn  bool // the previously running thread was enabled at this point
	Preempt bool // ... and was not chosen
}

type objRec struct {
	addr    uintptr
	lastW   VC
	reads   VC
	used    bool
	seq     int // first-touch order within the execution
	owner   int8
	readers int16
}

// Config for one execution.
type Config struct {
	Prefix      []uint8 // thread ids to choose at the first len(Prefix) points
	LastSleep   uint8   // sleep set in force at the last prefix point (before that step)
	Visited     *StateSet
	UseSleep    bool
	Horizon     int
	NoBlock     []bool
	MaxSteps    []int
	RecordTrace bool
	SaltPreempt bool
	// NoPoints: do not keep the list of scheduling decisions (very long single-thread runs whose only
	// question is whether they terminate within the horizon)
	NoPoints bool
}

type TraceStep struct {
	Tid  uint8
	Kind Kind
	Obj  int // object index in first-touch order of this execution (-1 none)
}

// Result of one execution.
type Result struct {
	Outcome   Outcome
	Detail    string
	Points    []PointRec
	Steps     int
	Trace     []TraceStep
	ThreadOp  []int
	NewStates int
	FinalKey  uint64
}

type Sched struct {
	n        int
	th       [MaxThreads]thread
	running  int
	cfg      Config
	res      Result
	done     chan struct{}
	aborted  bool
	condSeq  int
	preempts int
	sleep    uint8
	objs     []objRec
	usedObjs []int32
	invVC    VC
	retVC    VC
	wg       sync.WaitGroup
	panicVal interface{}
}

var cur atomic.Pointer[Sched]

var (
	scratchObjs []objRec
	scratchUsed []int32
)

// Dying reports whether the attached execution is being torn down: its threads are unwinding
// (runtime.Goexit runs the deferred calls of the code under test, typically unlocks of locks the
// model has already taken away from them). The shims then leave the real primitives alone: the
// instance is discarded with the execution.
//
//go:norace
func Dying() bool {
	s := cur.Load()
	return s != nil && s.aborted
}

// Active reports whether a scheduler is attached (false = pass-through).
func Active() bool { return cur.Load() != nil }

// Point announces the operation the calling thread is about to perform and
// returns when the scheduler has granted it.
func Point(k Kind, addr uintptr) {
	s := cur.Load()
	if s == nil {
		if budget.Load() != 0 && budget.Add(-1) <= 0 {
			budget.Store(0)
			panic(BudgetExceeded)
		}
		return
	}
	s.point(k, addr, 0)
}

// A budget of synchronisation operations for code that runs WITHOUT the scheduler (long sequential
// histories): when it is used up the running call panics with BudgetExceeded, so a call that spins
// forever becomes a verdict of the sequence search instead of a hung worker. 0 = no budget.
var budget atomic.Int64

const BudgetExceeded = "vshim: the budget of synchronisation operations is used up (the call does not terminate)"

func SetBudget(n int64) { budget.Store(n) }

func Point2(k Kind, addr, addr2 uintptr) {
	s := cur.Load()
	if s == nil {
		return
	}
	s.point(k, addr, addr2)
}

// Invoke / Return are the harness-level markers around an API call. They
// return the global step number (a timestamp for the history).
func Invoke() uint64 {
	s := cur.Load()
	if s == nil {
		return 0
	}
	s.point(KInvoke, markAddr, 0)
	return s.stepNo()
}

func Return() uint64 {
	s := cur.Load()
	if s == nil {
		return 0
	}
	s.point(KReturn, markAddr, 0)
	return s.stepNo()
}

// Park is an independent scheduling point callable from user functions.
func Park() {
	s := cur.Load()
	if s == nil {
		return
	}
	s.point(KPark, 0, 0)
}

// NoteLocked records a successful TryLock by the running thread.
//
//go:norace
func NoteLocked(a uintptr) {
	s := cur.Load()
	if s == nil {
		return
	}
	o, _ := s.objOf(a)
	o.owner = int8(s.running)
}

//go:norace
func (s *Sched) stepNo() uint64 { return uint64(s.res.Steps) }

//go:norace
func (s *Sched) point(k Kind, a, a2 uintptr) {
	if s.aborted {
		return // torn-down execution: deferred code of a dying thread
	}
	t := s.running
	th := &s.th[t]
	th.pendK, th.pendA, th.pendA2 = k, a, a2
	if k == KYield && th.lastK == KLoad {
		th.state = tsParked
		th.parkA = th.lastA
		th.woken = false
	}
	s.dispatch(t)
}

// dispatch picks the next thread and transfers control. self is the calling
// thread, or -1 for a caller that does not wait (main goroutine, finished thread).
//
//go:norace
func (s *Sched) dispatch(self int) {
	next := s.schedule()
	if next < 0 {
		handoff(s.done)
		if self >= 0 {
			s.waitGrant(self)
		}
		return
	}
	if next == self {
		return
	}
	handoff(s.th[next].grant)
	if self >= 0 {
		s.waitGrant(self)
	}
}

//go:norace
func (s *Sched) waitGrant(self int) {
	waitOn(s.th[self].grant)
	if s.aborted {
		runtime.Goexit()
	}
}

func handoff(c chan struct{}) {
	raceDisable()
	c <- struct{}{}
	raceEnable()
}

func waitOn(c chan struct{}) {
	raceDisable()
	<-c
	raceEnable()
}

//go:norace
func (s *Sched) objOf(a uintptr) (*objRec, int) {
	if len(s.usedObjs)*2 >= len(s.objs) {
		s.growObjs()
	}
	mask := uintptr(len(s.objs) - 1)
	h := (a * 0x9E3779B97F4A7C15) >> 20
	for i := uintptr(0); ; i++ {
		idx := (h + i) & mask
		o := &s.objs[idx]
		if !o.used {
			o.used = true
			o.addr = a
			o.owner = -1
			o.seq = len(s.usedObjs)
			s.usedObjs = append(s.usedObjs, int32(idx))
			return o, o.seq
		}
		if o.addr == a {
			return o, o.seq
		}
	}
}

//go:norace
func (s *Sched) growObjs() {
	old := s.objs
	oldUsed := s.usedObjs
	s.objs = make([]objRec, len(old)*2)
	s.usedObjs = make([]int32, 0, len(oldUsed)*2)
	mask := uintptr(len(s.objs) - 1)
	for _, oi := range oldUsed {
		src := old[oi]
		h := (src.addr * 0x9E3779B97F4A7C15) >> 20
		for i := uintptr(0); ; i++ {
			idx := (h + i) & mask
			if !s.objs[idx].used {
				s.objs[idx] = src
				s.usedObjs = append(s.usedObjs, int32(idx))
				break
			}
		}
	}
}

//go:norace
func (s *Sched) enabled(t int) bool {
	th := &s.th[t]
	switch th.state {
	case tsFinished:
		return false
	case tsParked:
		return th.woken
	}
	switch th.pendK {
	case KLock:
		o, _ := s.objOf(th.pendA)
		return o.owner < 0 && o.readers == 0
	case KRLock:
		o, _ := s.objOf(th.pendA)
		return o.owner < 0
	case KCondWake:
		return th.signaled
	}
	return true
}

//go:norace
func (s *Sched) fail(o Outcome, detail string) int {
	s.res.Outcome = o
	s.res.Detail = detail
	return -1
}

//go:norace
func isWrite(k Kind) bool {
	switch k {
	case KStore, KRMW, KLock, KUnlock, KRLock, KRUnlock, KCondWait, KCondWake, KCondSignal, KCondBroadcast:
		return true
	}
	return false
}

// dependent reports whether two pending/executed operations of different
// threads do not commute. It must be at least as coarse as the relation used
// for the vector clocks in apply.
//
//go:norace
func dependent(k1 Kind, a1, b1 uintptr, k2 Kind, a2, b2 uintptr) bool {
	switch k1 {
	case KStart, KPark, KYield, KEnd:
		return false
	}
	switch k2 {
	case KStart, KPark, KYield, KEnd:
		return false
	}
	m1 := k1 == KInvoke || k1 == KReturn
	m2 := k2 == KInvoke || k2 == KReturn
	if m1 || m2 {
		return m1 && m2 && k1 != k2
	}
	w1, w2 := isWrite(k1), isWrite(k2)
	if !w1 && !w2 {
		return false
	}
	if a1 == a2 {
		return true
	}
	// KCondWait also releases its mutex (second address)
	if b1 != 0 && b1 == a2 {
		return true
	}
	if b2 != 0 && b2 == a1 {
		return true
	}
	if b1 != 0 && b1 == b2 {
		return true
	}
	return false
}

// schedule chooses the next thread, applies the bookkeeping effects of its
// pending operation and returns its id, or -1 when the execution is over.
//
//go:norace
func (s *Sched) schedule() int {
	prev := s.running
	var en uint8
	unfinished := 0
	for t := 0; t < s.n; t++ {
		if s.th[t].state != tsFinished {
			unfinished++
			if s.enabled(t) {
				en |= 1 << uint(t)
			} else if s.th[t].noBlock {
				return s.fail(OMonitor, fmt.Sprintf("thread %d (must not wait) is blocked at %s", t, s.th[t].pendK))
			}
		}
	}
	if unfinished == 0 {
		s.res.Outcome = OComplete
		return -1
	}
	if en == 0 {
		d := "deadlock:"
		for t := 0; t < s.n; t++ {
			th := &s.th[t]
			if th.state != tsFinished {
				d += fmt.Sprintf(" T%d@%s", t, th.pendK)
				if th.state == tsParked {
					d += "(spinning)"
				}
			}
		}
		return s.fail(ODeadlock, d)
	}
	if s.res.Steps >= s.cfg.Horizon {
		return s.fail(OHorizon, fmt.Sprintf("step horizon %d exceeded", s.cfg.Horizon))
	}
	prevEnabled := prev >= 0 && en&(1<<uint(prev)) != 0
	pi := len(s.res.Points)
	next := -1
	if pi < len(s.cfg.Prefix) {
		next = int(s.cfg.Prefix[pi])
		if next >= s.n || en&(1<<uint(next)) == 0 {
			return s.fail(OInfra, fmt.Sprintf("replay divergence at point %d: thread %d is not enabled (enabled mask %b)", pi, next, en))
		}
		if pi+1 == len(s.cfg.Prefix) {
			s.sleep = s.cfg.LastSleep
		}
	} else {
		awake := en &^ s.sleep
		if awake == 0 {
			// everything that could run from here is covered by executions explored elsewhere
			s.res.Outcome = OPruned
			return -1
		}
		if prevEnabled && awake&(1<<uint(prev)) != 0 {
			next = prev
		} else {
			for t := 0; t < s.n; t++ {
				if awake&(1<<uint(t)) != 0 {
					next = t
					break
				}
			}
		}
	}
	th := &s.th[next]
	k, a, a2 := th.pendK, th.pendA, th.pendA2
	preempt := prevEnabled && next != prev
	if !s.cfg.NoPoints {
		s.res.Points = append(s.res.Points, PointRec{Enabled: en, Sleep: s.sleep, Tid: uint8(next), Kind: k, PrevEn: prevEnabled, Preempt: preempt})
	}
	s.res.Steps++
	if preempt {
		s.preempts++
	}
	if o, msg := s.apply(next); msg != "" {
		return s.fail(o, msg)
	}
	if th.maxSteps > 0 && th.nops > th.maxSteps {
		return s.fail(OMonitor, fmt.Sprintf("thread %d exceeded its step bound %d", next, th.maxSteps))
	}
	// sleep set after the step: sleeping threads whose pending op commutes with the executed one
	if s.cfg.UseSleep {
		var ns uint8
		for t := 0; t < s.n; t++ {
			if s.sleep&(1<<uint(t)) != 0 && t != next {
				o := &s.th[t]
				if !dependent(k, a, a2, o.pendK, o.pendA, o.pendA2) {
					ns |= 1 << uint(t)
				}
			}
		}
		s.sleep = ns
	} else {
		s.sleep = 0
	}
	// state key
	key := uint64(0x51ED270B35A1C9E7)
	for t := 0; t < s.n; t++ {
		key = mix(key, s.th[t].hash)
	}
	if s.cfg.SaltPreempt {
		// bounded search: the budget left and the thread that may continue for free are part of the state
		key = mix(key, uint64(s.preempts)*8+uint64(next)+77)
	}
	s.res.FinalKey = key
	if s.cfg.Visited != nil && pi+1 >= len(s.cfg.Prefix) {
		stored, present := s.cfg.Visited.Get(key)
		if !present {
			s.cfg.Visited.Put(key, s.sleep)
			s.res.NewStates++
		} else if stored&^s.sleep == 0 {
			// everything explorable from here was explored at an earlier visit
			s.res.Outcome = OPruned
			return -1
		} else {
			// threads in stored\sleep were asleep at every earlier visit but are awake now:
			// explore exactly those; all others are covered.
			s.cfg.Visited.Put(key, stored&s.sleep)
			s.sleep = ^(stored &^ s.sleep)
		}
	}
	s.running = next
	return next
}

//go:norace
func mix(h, v uint64) uint64 {
	h ^= v + 0x9E3779B97F4A7C15 + (h << 6) + (h >> 2)
	h *= 0xBF58476D1CE4E5B9
	h ^= h >> 31
	return h
}

//go:norace
func join(a *VC, b *VC) {
	for i := range a {
		if b[i] > a[i] {
			a[i] = b[i]
		}
	}
}

// apply performs the bookkeeping of thread t's pending op.
//
//go:norace
func (s *Sched) apply(t int) (Outcome, string) {
	th := &s.th[t]
	k, a := th.pendK, th.pendA
	if th.justWoke && k == KYield {
		// further yields of a back-off loop (Gosched called several times in a row before the awaited word
		// is read again): no-ops; the re-read is still owed
	} else if th.justWoke {
		th.justWoke = false
		if !(k == KLoad && a == th.parkA) {
			return OInfra, fmt.Sprintf("unsupported yield pattern: thread %d parked after load of %#x, next op %s %#x", t, th.parkA, k, a)
		}
	}
	if th.state == tsParked {
		th.state = tsReady
		th.justWoke = true
	}
	write := isWrite(k)
	var a2 uintptr
	var o *objRec
	objIdx := -1
	switch k {
	case KStart, KPark, KYield, KEnd:
		th.vc[t]++
	case KInvoke:
		join(&th.vc, &s.retVC)
		th.vc[t]++
		join(&s.invVC, &th.vc)
	case KReturn:
		join(&th.vc, &s.invVC)
		th.vc[t]++
		join(&s.retVC, &th.vc)
	default:
		o, objIdx = s.objOf(a)
	}
	switch k {
	case KLock:
		o.owner = int8(t)
	case KUnlock:
		if o.owner < 0 {
			return OPanic, fmt.Sprintf("thread %d unlocks a mutex that is not locked", t)
		}
		o.owner = -1
	case KRLock:
		o.readers++
	case KRUnlock:
		if o.readers <= 0 {
			return OPanic, fmt.Sprintf("thread %d RUnlocks an RWMutex that is not read-locked", t)
		}
		o.readers--
	case KCondWait:
		a2 = th.pendA2
		th.signaled = false
		th.state = tsCondWait
		th.condA = a
		s.condSeq++
		th.condSeq = s.condSeq
	case KCondWake:
		th.state = tsReady
	case KCondBroadcast:
		for u := 0; u < s.n; u++ {
			w := &s.th[u]
			if w.state == tsCondWait && w.condA == a {
				w.signaled = true
			}
		}
	case KCondSignal:
		best := -1
		for u := 0; u < s.n; u++ {
			w := &s.th[u]
			if w.state == tsCondWait && w.condA == a && !w.signaled {
				if best < 0 || w.condSeq < s.th[best].condSeq {
					best = u
				}
			}
		}
		if best >= 0 {
			s.th[best].signaled = true
		}
	case KEnd:
		th.state = tsFinished
	}
	if o != nil {
		join(&th.vc, &o.lastW)
		if write {
			join(&th.vc, &o.reads)
		}
		var o2 *objRec
		if a2 != 0 {
			o2, _ = s.objOf(a2)
			o, _ = s.objOf(a) // objOf may have grown the table
			o2.owner = -1
			join(&th.vc, &o2.lastW)
			join(&th.vc, &o2.reads)
		}
		th.vc[t]++
		if write {
			o.lastW = th.vc
			o.reads = VC{}
		} else {
			join(&o.reads, &th.vc)
		}
		if o2 != nil {
			o2.lastW = th.vc
			o2.reads = VC{}
		}
		if write {
			for u := 0; u < s.n; u++ {
				w := &s.th[u]
				if u != t && w.state == tsParked && (w.parkA == a || (a2 != 0 && w.parkA == a2)) {
					w.woken = true
				}
			}
		}
	}
	h := mix(th.hash, uint64(k)+1)
	for i := 0; i < s.n; i++ {
		h = mix(h, uint64(th.vc[i]))
	}
	th.hash = h
	th.nops++
	th.lastK, th.lastA = k, a
	if s.cfg.RecordTrace {
		s.res.Trace = append(s.res.Trace, TraceStep{Tid: uint8(t), Kind: k, Obj: objIdx})
	}
	return OComplete, ""
}

// Body is the code of one thread.
type Body func()

// Go is what a `go` statement of the code under test becomes (tools/instrument): with a scheduler
// attached the new goroutine is one more thread of the execution (its first event happens after the
// spawning thread's events so far); without one it is a plain goroutine.
func Go(fn func()) {
	s := cur.Load()
	if s == nil {
		go fn()
		return
	}
	s.spawn(fn)
}

//go:norace
func (s *Sched) spawn(fn func()) {
	if s.aborted {
		return
	}
	if s.n >= MaxThreads {
		s.res.Outcome = OInfra
		s.res.Detail = fmt.Sprintf("the code under test started more goroutines than the scheduler supports (%d threads)", MaxThreads)
		handoff(s.done)
		s.waitGrant(s.running) // never granted: the execution is torn down
		return
	}
	p := &s.th[s.running]
	i := s.n
	c := &s.th[i]
	*c = thread{grant: make(chan struct{}, 1), pendK: KStart}
	c.vc = p.vc
	c.hash = mix(p.hash, 0x5BA3117)
	s.n++
	s.wg.Add(1)
	go s.threadMain(i, fn)
}

// Run executes bodies under the scheduler with the given config and returns
// when the execution is over and all thread goroutines have exited.
func Run(bodies []Body, cfg Config) *Result {
	n := len(bodies)
	if n > MaxThreads {
		panic("too many threads")
	}
	if cfg.Horizon == 0 {
		cfg.Horizon = 50000
	}
	s := &Sched{n: n, running: -1, cfg: cfg, done: make(chan struct{}, 1)}
	s.objs, s.usedObjs = scratchObjs, scratchUsed[:0]
	if s.objs == nil {
		s.objs = make([]objRec, 1024)
	}
	s.res.Points = make([]PointRec, 0, 256)
	for i := 0; i < n; i++ {
		s.th[i].grant = make(chan struct{}, 1)
		s.th[i].pendK = KStart
		if cfg.NoBlock != nil {
			s.th[i].noBlock = cfg.NoBlock[i]
		}
		if cfg.MaxSteps != nil {
			s.th[i].maxSteps = cfg.MaxSteps[i]
		}
	}
	if !cur.CompareAndSwap(nil, s) {
		panic("sched: scheduler already attached")
	}
	s.wg.Add(n)
	for i := 0; i < n; i++ {
		go s.threadMain(i, bodies[i])
	}
	s.kick()
	waitOn(s.done)
	s.teardown()
	s.wg.Wait()
	cur.Store(nil)
	for _, oi := range s.usedObjs {
		s.objs[oi] = objRec{}
	}
	scratchObjs, scratchUsed = s.objs, s.usedObjs
	s.res.ThreadOp = make([]int, s.n)
	for i := 0; i < s.n; i++ {
		s.res.ThreadOp[i] = s.th[i].nops
	}
	if s.panicVal != nil && s.res.Outcome != OInfra {
		s.res.Outcome = OPanic
		s.res.Detail = fmt.Sprint(s.panicVal)
	}
	return &s.res
}

//go:norace
func (s *Sched) kick() { s.dispatch(-1) }

//go:norace
func (s *Sched) teardown() {
	s.aborted = true
	for i := 0; i < s.n; i++ {
		select {
		case s.th[i].grant <- struct{}{}:
		default:
		}
	}
}

func (s *Sched) threadMain(i int, body Body) {
	defer s.wg.Done()
	defer func() {
		if r := recover(); r != nil {
			s.threadPanic(i, r)
		}
	}()
	s.waitGrant(i) // the Start point: granted by kick or by another thread
	body()
	s.end(i)
}

//go:norace
func (s *Sched) end(i int) {
	if s.aborted {
		return
	}
	s.point(KEnd, 0, 0) // returns once KEnd has been granted and applied
	s.dispatch(-1)      // pass the baton on without waiting
}

//go:norace
func (s *Sched) threadPanic(i int, r interface{}) {
	if s.aborted {
		return
	}
	buf := make([]byte, 4096)
	buf = buf[:runtime.Stack(buf, false)]
	s.panicVal = fmt.Sprintf("panic in thread %d: %v\n%s", i, r, buf)
	s.res.Outcome = OPanic
	handoff(s.done)
}

// Running returns the id of the thread that currently holds the baton (-1 if
// no scheduler is attached).
//
//go:norace
func Running() int {
	s := cur.Load()
	if s == nil {
		return -1
	}
	return s.running
}

// Stuck is called by a shim when the running thread cannot make progress for a
// reason the scheduler could not foresee (a real lock leaked by an earlier
// phase). The execution ends as a deadlock; the calling goroutine never returns.
//
//go:norace
func Stuck(msg string) {
	s := cur.Load()
	if s == nil {
		panic(msg)
	}
	if s.aborted {
		runtime.Goexit()
	}
	self := s.running
	s.res.Outcome = ODeadlock
	s.res.Detail = fmt.Sprintf("deadlock: T%d: %s", self, msg)
	handoff(s.done)
	s.waitGrant(self)
}
