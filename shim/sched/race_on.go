//go:build race

package sched

import "runtime"

const RaceBuild = true

func raceDisable() { runtime.RaceDisable() }
func raceEnable()  { runtime.RaceEnable() }
