//go:build !race

package sched

const RaceBuild = false

func raceDisable() {}
func raceEnable()  {}
