package sched

// StateSet maps state keys (non-zero uint64) to the sleep set stored with the
// state. Open addressing; no Go map, so that the race detector does not see
// the scheduler's own bookkeeping (map accesses are instrumented inside the
// runtime).
type StateSet struct {
	keys  []uint64
	masks []uint8
	n     int
}

func NewStateSet() *StateSet {
	return &StateSet{keys: make([]uint64, 1<<12), masks: make([]uint8, 1<<12)}
}

//go:norace
func (s *StateSet) Len() int { return s.n }

//go:norace
func (s *StateSet) slot(k uint64) int {
	mask := uint64(len(s.keys) - 1)
	for i := k * 0x9E3779B97F4A7C15 >> 13; ; i++ {
		p := s.keys[i&mask]
		if p == 0 || p == k {
			return int(i & mask)
		}
	}
}

//go:norace
func (s *StateSet) Get(k uint64) (uint8, bool) {
	if k == 0 {
		k = 1
	}
	i := s.slot(k)
	if s.keys[i] == 0 {
		return 0, false
	}
	return s.masks[i], true
}

//go:norace
func (s *StateSet) Put(k uint64, m uint8) {
	if k == 0 {
		k = 1
	}
	if s.n*2 >= len(s.keys) {
		s.grow()
	}
	i := s.slot(k)
	if s.keys[i] == 0 {
		s.keys[i] = k
		s.n++
	}
	s.masks[i] = m
}

//go:norace
func (s *StateSet) grow() {
	ok, om := s.keys, s.masks
	s.keys = make([]uint64, len(ok)*2)
	s.masks = make([]uint8, len(ok)*2)
	for j, k := range ok {
		if k != 0 {
			i := s.slot(k)
			s.keys[i] = k
			s.masks[i] = om[j]
		}
	}
}
