// Package rt replaces runtime.Gosched in the code under test.
package rt

import (
	"runtime"

	"github.com/fufuok/cache/internal/vshim/sched"
)

func Gosched() {
	if sched.Active() {
		sched.Point(sched.KYield, 0)
		return
	}
	runtime.Gosched()
}

// Go replaces a `go` statement of the code under test: under the controlled scheduler the new
// goroutine is a scheduled thread, otherwise a plain goroutine.
func Go(fn func()) { sched.Go(fn) }
