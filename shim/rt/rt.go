// Package rt replaces runtime.Gosched in the code under test.
package rt

import (
	"runtime"

	"github.com/fufuok/cache/internal/vshim/sched"
)

func Gosched() {
	if sched.Active() {
		sched.Point(sched.KYield, 0)
		return
	}
	runtime.Gosched()
}
