// Package atomic mirrors sync/atomic; every operation is a scheduling point
// and then performs the real sync/atomic operation on the real word.
package atomic

import (
	ra "sync/atomic"
	"unsafe"

	"github.com/fufuok/cache/internal/vshim/sched"
)

func p(x unsafe.Pointer) uintptr { return uintptr(x) }

func LoadInt32(addr *int32) int32 {
	sched.Point(sched.KLoad, p(unsafe.Pointer(addr)))
	return ra.LoadInt32(addr)
}
func StoreInt32(addr *int32, v int32) {
	sched.Point(sched.KStore, p(unsafe.Pointer(addr)))
	ra.StoreInt32(addr, v)
}
func AddInt32(addr *int32, d int32) int32 {
	sched.Point(sched.KRMW, p(unsafe.Pointer(addr)))
	return ra.AddInt32(addr, d)
}
func SwapInt32(addr *int32, v int32) int32 {
	sched.Point(sched.KRMW, p(unsafe.Pointer(addr)))
	return ra.SwapInt32(addr, v)
}
func CompareAndSwapInt32(addr *int32, o, n int32) bool {
	sched.Point(sched.KRMW, p(unsafe.Pointer(addr)))
	return ra.CompareAndSwapInt32(addr, o, n)
}
func AndInt32(addr *int32, m int32) int32 {
	sched.Point(sched.KRMW, p(unsafe.Pointer(addr)))
	return ra.AndInt32(addr, m)
}
func OrInt32(addr *int32, m int32) int32 {
	sched.Point(sched.KRMW, p(unsafe.Pointer(addr)))
	return ra.OrInt32(addr, m)
}

// Int32 mirrors sync/atomic.Int32.
type Int32 struct{ v ra.Int32 }

func (x *Int32) Load() int32   { sched.Point(sched.KLoad, p(unsafe.Pointer(x))); return x.v.Load() }
func (x *Int32) Store(n int32) { sched.Point(sched.KStore, p(unsafe.Pointer(x))); x.v.Store(n) }
func (x *Int32) Swap(n int32) int32 {
	sched.Point(sched.KRMW, p(unsafe.Pointer(x)))
	return x.v.Swap(n)
}
func (x *Int32) Add(d int32) int32 { sched.Point(sched.KRMW, p(unsafe.Pointer(x))); return x.v.Add(d) }
func (x *Int32) And(m int32) int32 { sched.Point(sched.KRMW, p(unsafe.Pointer(x))); return x.v.And(m) }
func (x *Int32) Or(m int32) int32  { sched.Point(sched.KRMW, p(unsafe.Pointer(x))); return x.v.Or(m) }
func (x *Int32) CompareAndSwap(o, n int32) bool {
	sched.Point(sched.KRMW, p(unsafe.Pointer(x)))
	return x.v.CompareAndSwap(o, n)
}

func LoadInt64(addr *int64) int64 {
	sched.Point(sched.KLoad, p(unsafe.Pointer(addr)))
	return ra.LoadInt64(addr)
}
func StoreInt64(addr *int64, v int64) {
	sched.Point(sched.KStore, p(unsafe.Pointer(addr)))
	ra.StoreInt64(addr, v)
}
func AddInt64(addr *int64, d int64) int64 {
	sched.Point(sched.KRMW, p(unsafe.Pointer(addr)))
	return ra.AddInt64(addr, d)
}
func SwapInt64(addr *int64, v int64) int64 {
	sched.Point(sched.KRMW, p(unsafe.Pointer(addr)))
	return ra.SwapInt64(addr, v)
}
func CompareAndSwapInt64(addr *int64, o, n int64) bool {
	sched.Point(sched.KRMW, p(unsafe.Pointer(addr)))
	return ra.CompareAndSwapInt64(addr, o, n)
}
func AndInt64(addr *int64, m int64) int64 {
	sched.Point(sched.KRMW, p(unsafe.Pointer(addr)))
	return ra.AndInt64(addr, m)
}
func OrInt64(addr *int64, m int64) int64 {
	sched.Point(sched.KRMW, p(unsafe.Pointer(addr)))
	return ra.OrInt64(addr, m)
}

// Int64 mirrors sync/atomic.Int64.
type Int64 struct{ v ra.Int64 }

func (x *Int64) Load() int64   { sched.Point(sched.KLoad, p(unsafe.Pointer(x))); return x.v.Load() }
func (x *Int64) Store(n int64) { sched.Point(sched.KStore, p(unsafe.Pointer(x))); x.v.Store(n) }
func (x *Int64) Swap(n int64) int64 {
	sched.Point(sched.KRMW, p(unsafe.Pointer(x)))
	return x.v.Swap(n)
}
func (x *Int64) Add(d int64) int64 { sched.Point(sched.KRMW, p(unsafe.Pointer(x))); return x.v.Add(d) }
func (x *Int64) And(m int64) int64 { sched.Point(sched.KRMW, p(unsafe.Pointer(x))); return x.v.And(m) }
func (x *Int64) Or(m int64) int64  { sched.Point(sched.KRMW, p(unsafe.Pointer(x))); return x.v.Or(m) }
func (x *Int64) CompareAndSwap(o, n int64) bool {
	sched.Point(sched.KRMW, p(unsafe.Pointer(x)))
	return x.v.CompareAndSwap(o, n)
}

func LoadUint32(addr *uint32) uint32 {
	sched.Point(sched.KLoad, p(unsafe.Pointer(addr)))
	return ra.LoadUint32(addr)
}
func StoreUint32(addr *uint32, v uint32) {
	sched.Point(sched.KStore, p(unsafe.Pointer(addr)))
	ra.StoreUint32(addr, v)
}
func AddUint32(addr *uint32, d uint32) uint32 {
	sched.Point(sched.KRMW, p(unsafe.Pointer(addr)))
	return ra.AddUint32(addr, d)
}
func SwapUint32(addr *uint32, v uint32) uint32 {
	sched.Point(sched.KRMW, p(unsafe.Pointer(addr)))
	return ra.SwapUint32(addr, v)
}
func CompareAndSwapUint32(addr *uint32, o, n uint32) bool {
	sched.Point(sched.KRMW, p(unsafe.Pointer(addr)))
	return ra.CompareAndSwapUint32(addr, o, n)
}
func AndUint32(addr *uint32, m uint32) uint32 {
	sched.Point(sched.KRMW, p(unsafe.Pointer(addr)))
	return ra.AndUint32(addr, m)
}
func OrUint32(addr *uint32, m uint32) uint32 {
	sched.Point(sched.KRMW, p(unsafe.Pointer(addr)))
	return ra.OrUint32(addr, m)
}

// Uint32 mirrors sync/atomic.Uint32.
type Uint32 struct{ v ra.Uint32 }

func (x *Uint32) Load() uint32   { sched.Point(sched.KLoad, p(unsafe.Pointer(x))); return x.v.Load() }
func (x *Uint32) Store(n uint32) { sched.Point(sched.KStore, p(unsafe.Pointer(x))); x.v.Store(n) }
func (x *Uint32) Swap(n uint32) uint32 {
	sched.Point(sched.KRMW, p(unsafe.Pointer(x)))
	return x.v.Swap(n)
}
func (x *Uint32) Add(d uint32) uint32 {
	sched.Point(sched.KRMW, p(unsafe.Pointer(x)))
	return x.v.Add(d)
}
func (x *Uint32) And(m uint32) uint32 {
	sched.Point(sched.KRMW, p(unsafe.Pointer(x)))
	return x.v.And(m)
}
func (x *Uint32) Or(m uint32) uint32 { sched.Point(sched.KRMW, p(unsafe.Pointer(x))); return x.v.Or(m) }
func (x *Uint32) CompareAndSwap(o, n uint32) bool {
	sched.Point(sched.KRMW, p(unsafe.Pointer(x)))
	return x.v.CompareAndSwap(o, n)
}

func LoadUint64(addr *uint64) uint64 {
	sched.Point(sched.KLoad, p(unsafe.Pointer(addr)))
	return ra.LoadUint64(addr)
}
func StoreUint64(addr *uint64, v uint64) {
	sched.Point(sched.KStore, p(unsafe.Pointer(addr)))
	ra.StoreUint64(addr, v)
}
func AddUint64(addr *uint64, d uint64) uint64 {
	sched.Point(sched.KRMW, p(unsafe.Pointer(addr)))
	return ra.AddUint64(addr, d)
}
func SwapUint64(addr *uint64, v uint64) uint64 {
	sched.Point(sched.KRMW, p(unsafe.Pointer(addr)))
	return ra.SwapUint64(addr, v)
}
func CompareAndSwapUint64(addr *uint64, o, n uint64) bool {
	sched.Point(sched.KRMW, p(unsafe.Pointer(addr)))
	return ra.CompareAndSwapUint64(addr, o, n)
}
func AndUint64(addr *uint64, m uint64) uint64 {
	sched.Point(sched.KRMW, p(unsafe.Pointer(addr)))
	return ra.AndUint64(addr, m)
}
func OrUint64(addr *uint64, m uint64) uint64 {
	sched.Point(sched.KRMW, p(unsafe.Pointer(addr)))
	return ra.OrUint64(addr, m)
}

// Uint64 mirrors sync/atomic.Uint64.
type Uint64 struct{ v ra.Uint64 }

func (x *Uint64) Load() uint64   { sched.Point(sched.KLoad, p(unsafe.Pointer(x))); return x.v.Load() }
func (x *Uint64) Store(n uint64) { sched.Point(sched.KStore, p(unsafe.Pointer(x))); x.v.Store(n) }
func (x *Uint64) Swap(n uint64) uint64 {
	sched.Point(sched.KRMW, p(unsafe.Pointer(x)))
	return x.v.Swap(n)
}
func (x *Uint64) Add(d uint64) uint64 {
	sched.Point(sched.KRMW, p(unsafe.Pointer(x)))
	return x.v.Add(d)
}
func (x *Uint64) And(m uint64) uint64 {
	sched.Point(sched.KRMW, p(unsafe.Pointer(x)))
	return x.v.And(m)
}
func (x *Uint64) Or(m uint64) uint64 { sched.Point(sched.KRMW, p(unsafe.Pointer(x))); return x.v.Or(m) }
func (x *Uint64) CompareAndSwap(o, n uint64) bool {
	sched.Point(sched.KRMW, p(unsafe.Pointer(x)))
	return x.v.CompareAndSwap(o, n)
}

func LoadUintptr(addr *uintptr) uintptr {
	sched.Point(sched.KLoad, p(unsafe.Pointer(addr)))
	return ra.LoadUintptr(addr)
}
func StoreUintptr(addr *uintptr, v uintptr) {
	sched.Point(sched.KStore, p(unsafe.Pointer(addr)))
	ra.StoreUintptr(addr, v)
}
func AddUintptr(addr *uintptr, d uintptr) uintptr {
	sched.Point(sched.KRMW, p(unsafe.Pointer(addr)))
	return ra.AddUintptr(addr, d)
}
func SwapUintptr(addr *uintptr, v uintptr) uintptr {
	sched.Point(sched.KRMW, p(unsafe.Pointer(addr)))
	return ra.SwapUintptr(addr, v)
}
func CompareAndSwapUintptr(addr *uintptr, o, n uintptr) bool {
	sched.Point(sched.KRMW, p(unsafe.Pointer(addr)))
	return ra.CompareAndSwapUintptr(addr, o, n)
}
func AndUintptr(addr *uintptr, m uintptr) uintptr {
	sched.Point(sched.KRMW, p(unsafe.Pointer(addr)))
	return ra.AndUintptr(addr, m)
}
func OrUintptr(addr *uintptr, m uintptr) uintptr {
	sched.Point(sched.KRMW, p(unsafe.Pointer(addr)))
	return ra.OrUintptr(addr, m)
}

// Uintptr mirrors sync/atomic.Uintptr.
type Uintptr struct{ v ra.Uintptr }

func (x *Uintptr) Load() uintptr   { sched.Point(sched.KLoad, p(unsafe.Pointer(x))); return x.v.Load() }
func (x *Uintptr) Store(n uintptr) { sched.Point(sched.KStore, p(unsafe.Pointer(x))); x.v.Store(n) }
func (x *Uintptr) Swap(n uintptr) uintptr {
	sched.Point(sched.KRMW, p(unsafe.Pointer(x)))
	return x.v.Swap(n)
}
func (x *Uintptr) Add(d uintptr) uintptr {
	sched.Point(sched.KRMW, p(unsafe.Pointer(x)))
	return x.v.Add(d)
}
func (x *Uintptr) And(m uintptr) uintptr {
	sched.Point(sched.KRMW, p(unsafe.Pointer(x)))
	return x.v.And(m)
}
func (x *Uintptr) Or(m uintptr) uintptr {
	sched.Point(sched.KRMW, p(unsafe.Pointer(x)))
	return x.v.Or(m)
}
func (x *Uintptr) CompareAndSwap(o, n uintptr) bool {
	sched.Point(sched.KRMW, p(unsafe.Pointer(x)))
	return x.v.CompareAndSwap(o, n)
}

func LoadPointer(addr *unsafe.Pointer) unsafe.Pointer {
	sched.Point(sched.KLoad, p(unsafe.Pointer(addr)))
	return ra.LoadPointer(addr)
}
func StorePointer(addr *unsafe.Pointer, v unsafe.Pointer) {
	sched.Point(sched.KStore, p(unsafe.Pointer(addr)))
	ra.StorePointer(addr, v)
}
func SwapPointer(addr *unsafe.Pointer, v unsafe.Pointer) unsafe.Pointer {
	sched.Point(sched.KRMW, p(unsafe.Pointer(addr)))
	return ra.SwapPointer(addr, v)
}
func CompareAndSwapPointer(addr *unsafe.Pointer, o, n unsafe.Pointer) bool {
	sched.Point(sched.KRMW, p(unsafe.Pointer(addr)))
	return ra.CompareAndSwapPointer(addr, o, n)
}

// Value mirrors sync/atomic.Value.
type Value struct{ v ra.Value }

func (x *Value) Load() interface{} {
	sched.Point(sched.KLoad, p(unsafe.Pointer(x)))
	return x.v.Load()
}
func (x *Value) Store(val interface{}) {
	sched.Point(sched.KStore, p(unsafe.Pointer(x)))
	x.v.Store(val)
}
func (x *Value) Swap(n interface{}) interface{} {
	sched.Point(sched.KRMW, p(unsafe.Pointer(x)))
	return x.v.Swap(n)
}
func (x *Value) CompareAndSwap(o, n interface{}) bool {
	sched.Point(sched.KRMW, p(unsafe.Pointer(x)))
	return x.v.CompareAndSwap(o, n)
}

// Bool mirrors sync/atomic.Bool.
type Bool struct{ v ra.Bool }

func (x *Bool) Load() bool       { sched.Point(sched.KLoad, p(unsafe.Pointer(x))); return x.v.Load() }
func (x *Bool) Store(b bool)     { sched.Point(sched.KStore, p(unsafe.Pointer(x))); x.v.Store(b) }
func (x *Bool) Swap(b bool) bool { sched.Point(sched.KRMW, p(unsafe.Pointer(x))); return x.v.Swap(b) }
func (x *Bool) CompareAndSwap(o, n bool) bool {
	sched.Point(sched.KRMW, p(unsafe.Pointer(x)))
	return x.v.CompareAndSwap(o, n)
}

// Pointer mirrors sync/atomic.Pointer.
type Pointer[T any] struct{ v ra.Pointer[T] }

func (x *Pointer[T]) Load() *T     { sched.Point(sched.KLoad, p(unsafe.Pointer(x))); return x.v.Load() }
func (x *Pointer[T]) Store(n *T)   { sched.Point(sched.KStore, p(unsafe.Pointer(x))); x.v.Store(n) }
func (x *Pointer[T]) Swap(n *T) *T { sched.Point(sched.KRMW, p(unsafe.Pointer(x))); return x.v.Swap(n) }
func (x *Pointer[T]) CompareAndSwap(o, n *T) bool {
	sched.Point(sched.KRMW, p(unsafe.Pointer(x)))
	return x.v.CompareAndSwap(o, n)
}
