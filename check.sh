#!/bin/bash
# usage: check.sh <property id> [quick|thorough]
# Rebuilds an instrumented scratch copy of /repo's working tree (or $VERIF_SRC),
# runs the property's check on it and removes the copy.
# exit 0: property held on everything explored (KNOWN-FINDING lines possible)
# exit 1: VIOLATION property=<id> replay=<path>
# exit 2: infrastructure error, no verdict
ID=$1
TIER=${2:-${VERIF_TIER:-quick}}
cd "$(dirname "$0")" || exit 2
. scripts/lib.sh
[ -x bin/instrument ] || ./setup.sh >/dev/null 2>&1 || { echo "setup failed" >&2; exit 2; }
SCR=$(mktemp -d "${TMPDIR:-/tmp}/verif-$ID.XXXXXX") || exit 2
trap 'rm -rf "$SCR"' EXIT
prepare_scratch "$SCR" || { echo "INFRASTRUCTURE: cannot prepare instrumented copy" >&2; exit 2; }
HOOKS=$(sed -n 's/.*total substitutions \([0-9]*\).*/\1/p' "$SCR/instrument.log")
FLAGS=""
case "$ID" in
  C14) FLAGS="-race" ;;
esac
build_vcheck "$SCR" $FLAGS > "$SCR/build.log" 2>&1 || { echo "INFRASTRUCTURE: instrumented copy does not build" >&2; tail -20 "$SCR/build.log" >&2; exit 2; }
mkdir -p evidence replays
EVID="$PWD/evidence"; REPL="$PWD/replays"
if [ "$VERIF_SRC" != /repo ]; then
  # a run against something else than /repo (own mutants, seeded changes) must not overwrite the evidence of /repo
  EVID="$PWD/evidence/_alt"; REPL="$PWD/replays/_alt"; mkdir -p "$EVID" "$REPL"
fi
if [ "$TIER" = thorough ] && [ -z "$VERIF_SKIP_SELFTEST" ]; then
  # conformance of the instrumentation itself: the repository's own tests on the
  # instrumented copy with the shims in pass-through mode
  ( cd "$SCR/src" && go test -vet=off -count=1 -timeout 20m . > "$SCR/selftest.log" 2>&1 ) || {
    echo "INFRASTRUCTURE: repository tests fail on the instrumented copy (pass-through mode)" >&2; tail -20 "$SCR/selftest.log" >&2; exit 2; }
fi
"$SCR/vcheck" -prop "$ID" -tier "$TIER" -hooks "${HOOKS:-0}" -evidence "$EVID/$ID.json" -replays "$REPL" -known "$PWD/known_findings.json"
