package main

import (
	"fmt"
	"runtime"
	"time"

	vtime "github.com/fufuok/cache/internal/vshim/time"
)

// ---- C15: the janitor cleans up on its own, only when configured, and dies with the cache ----

var c15Intervals = []time.Duration{-time.Second, -1, 0, 1, time.Second}

func c15Configs(twin int) []CacheCfg {
	var out []CacheCfg
	for _, ivl := range c15Intervals {
		out = append(out,
			CacheCfg{Twin: twin, HasIvl: true, Ivl: ivl},
			CacheCfg{Twin: twin, HasIvl: true, Ivl: ivl, HasDef: true, Def: 2, HasMinCap: true, MinCap: 200},
			CacheCfg{Twin: twin, UseDefault: true, Def: 2, Ivl: ivl},
			CacheCfg{Twin: twin, UseDefault: true, Def: durNoExp, Ivl: ivl})
	}
	out = append(out, CacheCfg{Twin: twin}) // New(): DefaultCleanupInterval
	return out
}

func wantInterval(cfg CacheCfg) time.Duration {
	if !cfg.UseDefault && !cfg.HasIvl {
		return 10 * time.Second
	}
	if cfg.Ivl < 0 {
		return 0
	}
	return cfg.Ivl
}

func c15Alphabet(level int) []CIn {
	ev := []CIn{{Op: CAdvance, D: 1}, {Op: CAdvance, D: 2}, {Op: CTick}, {Op: CCount}, {Op: CDeleteExpired}}
	for _, k := range []int{0, 1} {
		for _, d := range []time.Duration{durNoExp, 1, 2} {
			ev = append(ev, CIn{Op: CSet, K: k, V: k + 1, D: d})
		}
		ev = append(ev, CIn{Op: CGet, K: k})
	}
	ev = append(ev, CIn{Op: CSetCallback, CB: 2})
	if level >= 1 {
		ev = append(ev, CIn{Op: CSetCallback, CB: 0}, CIn{Op: CDelete, K: 0}, CIn{Op: CGetOrSet, K: 1, V: 3, D: 1})
	}
	return ev
}

func genC15(tier string) []*Scenario {
	lvl := lvlOf(tier)
	depth := 4
	if lvl >= 1 {
		depth = 5
	}
	var out []*Scenario
	for twin := 0; twin < 3; twin++ {
		if lvl == 0 && twin == 2 {
			continue
		}
		for _, cfg := range c15Configs(twin) {
			for _, cb := range []bool{false, true} {
				if cb && cfg.HasMinCap {
					continue
				}
				def := durNoExp
				if cfg.HasDef || cfg.UseDefault {
					def = normDef(cfg.Def)
				}
				name := fmt.Sprintf("C15/janitor/%s/callback=%v", cfg, cb)
				sp := newCacheSeqSpec(name, cfg, def, cb, c15Alphabet(lvl), depth, "C15")
				out = append(out, &Scenario{Name: name, Prop: "C15", Seq: sp, ExpectOutcomes: 2})
			}
		}
	}
	return out
}

// constructor enumeration: a ticker exists iff the normalised interval is positive, with exactly that period
func c15Constructors() ([]Finding, int) {
	var fs []Finding
	n := 0
	for twin := 0; twin < 3; twin++ {
		cfgs := c15Configs(twin)
		// the interval option given twice: the later occurrence decides whether (and how often) a janitor runs
		for _, pair := range [][2]time.Duration{{time.Second, 0}, {0, time.Second}, {time.Second, -1}, {-1, 1}, {time.Hour, time.Second}} {
			cfgs = append(cfgs, CacheCfg{Twin: twin, Earlier: true, EarlierDef: 2, EarlierIvl: pair[0], HasIvl: true, Ivl: pair[1]})
		}
		for _, cfg := range cfgs {
			n++
			vtime.VEnable(epochNs)
			vtime.VCaptureTickers(true)
			c := newCache(cfg)
			waitJanitorsIdle()
			tk := vtime.VCaptured()
			want := wantInterval(cfg)
			got := time.Duration(0)
			if len(tk) > 0 {
				got = tk[0].Period
			}
			if len(tk) > 1 || got != want || (len(tk) == 1) != (want > 0) {
				fs = append(fs, Finding{Property: "C15", Signature: fmt.Sprintf("constructor %s: janitor ticker %v, want %v", cfg, got, want),
					Detail: fmt.Sprintf("%s registered %d ticker(s) with period %v; a janitor must run iff the cleanup interval is > 0 (want period %v)", cfg, len(tk), got, want),
					Replay: map[string]interface{}{"engine": "C15"}})
			}
			_ = c
		}
	}
	vtime.VCaptureTickers(false)
	return fs, n
}

// life cycle: once a cache is unreachable its janitor stops (ticker stopped, goroutine gone)
func c15Lifecycle(level int) ([]Finding, []interface{}) {
	var fs []Finding
	var samples []interface{}
	counts := []int{1, 2, 8, 20}
	for _, n := range counts {
		for _, withEntries := range []bool{false, true} {
			for twin := 0; twin < 2; twin++ {
				runtime.GC()
				base := runtime.NumGoroutine()
				vtime.VEnable(epochNs)
				vtime.VCaptureTickers(true)
				func() {
					for i := 0; i < n; i++ {
						cfg := CacheCfg{Twin: twin, HasIvl: true, Ivl: time.Second}
						if withEntries {
							cfg.Callback = func(k, v int) {}
						}
						c := newCache(cfg)
						if withEntries {
							for k := 0; k < 50; k++ {
								c.Set(k, k+1, 1)
							}
						}
					}
				}()
				waitJanitorsIdle()
				tk := vtime.VCaptured()
				during := runtime.NumGoroutine()
				iters := 0
				stopped := func() int {
					s := 0
					for _, t := range tk {
						if t.Stopped() {
							s++
						}
					}
					return s
				}
				for iters = 0; iters < 200; iters++ {
					if stopped() == len(tk) && runtime.NumGoroutine() <= base {
						break
					}
					runtime.GC()
					runtime.Gosched()
					time.Sleep(time.Millisecond)
				}
				ok := len(tk) == n && stopped() == len(tk) && runtime.NumGoroutine() <= base
				samples = append(samples, map[string]interface{}{"caches": n, "twin": twinNames[twin], "entries_and_callback": withEntries,
					"goroutines_before": base, "goroutines_while_alive": during, "goroutines_after": runtime.NumGoroutine(), "tickers": len(tk), "tickers_stopped": stopped(), "gc_rounds": iters})
				if !ok {
					fs = append(fs, Finding{Property: "C15", Signature: fmt.Sprintf("life cycle: janitor of an unreachable %s does not stop", twinNames[twin]),
						Detail: fmt.Sprintf("%d caches (%s, entries/callback=%v) created and dropped: %d tickers registered, %d stopped after %d GC rounds; goroutines %d -> %d -> %d",
							n, twinNames[twin], withEntries, len(tk), stopped(), iters, base, during, runtime.NumGoroutine()),
						Replay: map[string]interface{}{"engine": "C15"}})
				}
			}
		}
	}
	// the converse: while a cache IS reachable its janitor keeps running, however many GC cycles pass
	for twin := 0; twin < 2; twin++ {
		for _, useDefault := range []bool{false, true} {
			vtime.VEnable(epochNs)
			vtime.VCaptureTickers(true)
			cfg := CacheCfg{Twin: twin, HasIvl: true, Ivl: time.Second, UseDefault: useDefault, Def: durNoExp}
			evicted := 0
			cfg.Callback = func(k, v int) { evicted++ }
			c := newCache(cfg)
			waitJanitorsIdle()
			tk := vtime.VCaptured()
			for i := 0; i < 5; i++ {
				runtime.GC()
				runtime.Gosched()
				time.Sleep(time.Millisecond)
			}
			problem := ""
			if len(tk) != 1 {
				problem = fmt.Sprintf("%d tickers registered", len(tk))
			} else if tk[0].Stopped() {
				problem = "the janitor stopped its ticker although the cache is still reachable"
			} else {
				c.Set(0, 1, 1)
				c.SetForever(1, 2)
				vtime.VAdvance(5)
				if !tk[0].Fire(20*time.Second) || !waitJanitorsIdle() {
					problem = "the janitor did not take a tick although the cache is still reachable"
				} else if c.Count() != 1 || evicted != 1 {
					problem = fmt.Sprintf("after a tick Count=%d (want 1), callbacks=%d (want 1)", c.Count(), evicted)
				}
				// a long life: 60 more ticks, an entry expiring before each, the callback swapped every 15 ticks
				evicted2 := 0
				for round := 1; round <= 60 && problem == ""; round++ {
					if round%15 == 0 {
						if round%30 == 0 {
							c.SetEvictedCallback(func(k, v int) { evicted++ })
						} else {
							c.SetEvictedCallback(func(k, v int) { evicted2++ })
						}
					}
					before := evicted + evicted2
					c.Set(round%3+2, round, 1)
					vtime.VAdvance(2)
					if tk[0].Stopped() || !tk[0].Fire(20*time.Second) || !waitJanitorsIdle() {
						problem = fmt.Sprintf("the janitor stopped taking ticks after %d ticks", round)
					} else if c.Count() != 1 || evicted+evicted2 != before+1 {
						problem = fmt.Sprintf("tick %d: Count=%d (want 1), callbacks so far %d (want %d)", round+1, c.Count(), evicted+evicted2, before+1)
					}
				}
				// first callback: the first tick, rounds 1-14, 30-44 and 60; second callback: rounds 15-29 and 45-59
				// an idle life: the cache stays empty for 20 ticks; the janitor must not drift away from its interval
				// (a period beyond 16 intervals is not "within a bounded number of intervals" any more), and the
				// first entry that expires afterwards is cleaned by the next tick
				if problem == "" {
					c.Delete(1)
					for idle := 1; idle <= 20 && problem == ""; idle++ {
						cur := tk[0]
						if all := vtime.VCaptured(); len(all) > 0 {
							cur = all[len(all)-1]
						}
						if cur.Stopped() || !cur.Fire(20*time.Second) || !waitJanitorsIdle() {
							problem = fmt.Sprintf("the janitor stopped taking ticks after %d idle ticks", idle)
						}
						if all := vtime.VCaptured(); len(all) > 0 {
							cur = all[len(all)-1]
						}
						if problem == "" && (cur.Period <= 0 || cur.Period > 16*time.Second) {
							problem = fmt.Sprintf("after %d idle ticks the janitor waits %v between passes (configured interval 1s)", idle, cur.Period)
						}
					}
					if problem == "" {
						before := evicted + evicted2
						c.Set(0, 99, 1)
						vtime.VAdvance(2)
						cur := tk[0]
						if all := vtime.VCaptured(); len(all) > 0 {
							cur = all[len(all)-1]
						}
						if !cur.Fire(20*time.Second) || !waitJanitorsIdle() || c.Count() != 0 || evicted+evicted2 != before+1 {
							problem = fmt.Sprintf("after an idle period the next tick did not clean: Count=%d, callbacks %d (want %d)", c.Count(), evicted+evicted2, before+1)
						}
					}
				}
				// (plus, for the first callback, the Delete that emptied the cache and the entry of the idle phase)
				if problem == "" && (evicted != 1+14+15+1+1+1 || evicted2 != 15+15) {
					problem = fmt.Sprintf("callbacks in force were told %d and %d evictions, want 33 and 30", evicted, evicted2)
				}
			}
			samples = append(samples, map[string]interface{}{"alive_after_gc": cfg.String(), "problem": problem})
			if problem != "" {
				fs = append(fs, Finding{Property: "C15", Signature: fmt.Sprintf("life cycle: janitor of a reachable %s dies or stops cleaning after GC", twinNames[twin]),
					Detail: fmt.Sprintf("%s held across 5 GC cycles: %s", cfg, problem), Replay: map[string]interface{}{"engine": "C15"}})
			}
			runtime.KeepAlive(c)
		}
	}
	// a cache dropped while its janitor is in the middle of a pass (held inside the evicted callback): once the
	// callback returns the janitor must still stop
	for twin := 0; twin < 2; twin++ {
		runtime.GC()
		base := runtime.NumGoroutine()
		vtime.VEnable(epochNs)
		vtime.VCaptureTickers(true)
		gate := make(chan struct{})
		entered := make(chan struct{}, 4)
		func() {
			c := newCache(CacheCfg{Twin: twin, HasIvl: true, Ivl: time.Second, Callback: func(k, v int) {
				entered <- struct{}{}
				<-gate
			}})
			waitJanitorsIdle()
			c.Set(0, 1, 1)
			vtime.VAdvance(2)
		}()
		tk := vtime.VCaptured()
		problem := ""
		if len(tk) != 1 || !tk[0].Fire(20*time.Second) {
			problem = "the janitor did not take a tick"
		} else {
			<-entered // the janitor is inside the callback now, and nobody references the cache any more
			for i := 0; i < 30; i++ {
				runtime.GC()
				time.Sleep(5 * time.Millisecond)
			}
			close(gate)
			iters := 0
			for ; iters < 200; iters++ {
				if tk[0].Stopped() && runtime.NumGoroutine() <= base {
					break
				}
				runtime.GC()
				runtime.Gosched()
				time.Sleep(time.Millisecond)
			}
			if !tk[0].Stopped() || runtime.NumGoroutine() > base {
				problem = fmt.Sprintf("ticker stopped=%v, goroutines %d -> %d after %d GC rounds", tk[0].Stopped(), base, runtime.NumGoroutine(), iters)
			}
		}
		samples = append(samples, map[string]interface{}{"dropped_mid_pass": twinNames[twin], "problem": problem})
		if problem != "" {
			fs = append(fs, Finding{Property: "C15", Signature: fmt.Sprintf("life cycle: janitor of a %s dropped in the middle of a cleanup pass does not stop", twinNames[twin]),
				Detail: problem, Replay: map[string]interface{}{"engine": "C15"}})
		}
	}
	vtime.VCaptureTickers(false)
	return fs, samples
}

func init() {
	scenarioGens["C15"] = genC15
	checks["C15"] = func(rc *runCtx) int {
		extraFindings = func(cov map[string]interface{}) []Finding {
			f1, n := c15Constructors()
			f2, samples := c15Lifecycle(lvlOf(rc.Tier))
			cov["constructor_variants_enumerated"] = n
			cov["lifecycle_runs"] = samples
			return append(f1, f2...)
		}
		return runE1Check(rc, []string{
			"package time is substituted in package cache: tickers are captured (unbuffered channel, fired by the harness), the clock is virtual; the janitor goroutine is the real one started by the constructor",
			"one Tick event = two ticks delivered to the real janitor loop (the second is taken only after the first pass and its callbacks are over)",
			"constructor variants: New with option subsets, NewDefault, *Of twins; intervals -1s, -1ns, 0, 1ns, 1s and the default; event sequences up to the stated depth",
			"life-cycle half: after dropping all references the harness loops runtime.GC() up to 200 rounds until every captured ticker recorded Stop and the goroutine count is back to the baseline; this observes the Go runtime's finalizer scheduling (the one place where the environment is observed rather than enumerated)",
		}, nil)
	}
	replayers["C15"] = func(path, prop string, payload map[string]interface{}) int {
		f1, _ := c15Constructors()
		f2, _ := c15Lifecycle(0)
		for _, f := range append(f1, f2...) {
			fmt.Printf("VIOLATION property=C15 replay=%s\n  %s\n  %s\n", path, f.Signature, f.Detail)
		}
		if len(f1)+len(f2) > 0 {
			return 1
		}
		fmt.Println("no violation")
		return 0
	}
}
