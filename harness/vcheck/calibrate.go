package main

import (
	"fmt"
	"sync"

	"github.com/fufuok/cache/internal/xsync"
)

// Resize policy of the code under test, measured instead of assumed: the scenarios that need a table
// "one insert away from growing" or "one delete away from shrinking" must not depend on the current
// values of the load factor and the shrink fraction (tuning them preserves every property).

type resizePolicy struct {
	// grow: the largest size of a minimum-length table at which an insert into a full bucket chain
	// does not grow the table yet (at grow+1 it does)
	grow int
	// shrink: the largest size of a once-grown table at which a delete that empties a bucket
	// shrinks the table (at shrink+1 it does not)
	shrink int
}

var (
	policyMu    sync.Mutex
	policyCache = map[int]*resizePolicy{}
)

// growPolicy / shrinkPolicy measure on first use (a scenario that needs neither must not depend on them).
func growPolicy(c ContainerKind) int   { return policyOf(c, false).grow }
func shrinkPolicy(c ContainerKind) int { return policyOf(c, true).shrink }

func policyOf(c ContainerKind, needShrink bool) resizePolicy {
	slots := c.slots()
	policyMu.Lock()
	defer policyMu.Unlock()
	p := policyCache[slots]
	if p == nil {
		p = &resizePolicy{grow: -1, shrink: -1}
		policyCache[slots] = p
	}
	if p.grow >= 0 && (!needShrink || p.shrink >= 0) {
		return *p
	}
	kind := CMap
	if slots != 3 {
		kind = CMapOfInt
	}
	// the measurement installs its own layout in the (global) hash hooks: put the caller's back afterwards
	s0, h0, d0 := xsync.VerifSeed, xsync.VerifHashString, xsync.VerifHasher
	defer func() { xsync.VerifSeed, xsync.VerifHashString, xsync.VerifHasher = s0, h0, d0 }()
	lay := layoutFor(RelSD)
	fill := func(m MapLike, size int) {
		for j := 0; j < slots; j++ {
			m.Store(fillTarget+j, 1000+j)
		}
		for j := 0; m.Size() < size; j++ {
			m.Store(fillSpread+j, 2000+j)
		}
	}
	for size := slots; p.grow < 0 && size <= 32*slots; size++ {
		m := newContainer(kind, lay)
		fill(m, size)
		if m.Stats().TotalGrowths != 0 {
			break // the spread fillers alone made it grow: nothing beyond this size can be armed
		}
		m.Store(fillTarget+slots, 1999) // into the full chain
		if m.Stats().TotalGrowths == 1 {
			p.grow = size - 1
			break
		}
	}
	if p.grow < 0 {
		panic(fmt.Sprintf("resize policy of %v cannot be measured: no table size at which an insert into a full chain grows the minimum table", kind))
	}
	if !needShrink {
		return *p
	}
	for size := 1; size <= 2*slots+8; size++ {
		m := newContainer(kind, lay)
		fill(m, p.grow+1)
		n := m.Size() - slots // spread fillers
		m.Store(fillTarget+slots, 1999)
		if s := m.Stats(); s.TotalGrowths != 1 {
			break
		}
		for j := 0; j <= slots; j++ {
			m.Delete(fillTarget + j)
		}
		// keep `size` spread fillers that live in the upper half of the grown table, one per bucket
		for j := n - 1; j >= 0; j-- {
			if j >= 31 && j < 31+size {
				continue
			}
			m.Delete(fillSpread + j)
		}
		if m.Stats().TotalShrinks != 0 {
			continue // already shrunk while deleting down to `size`
		}
		m.Delete(fillSpread + 31) // empties its bucket
		if m.Stats().TotalShrinks == 1 {
			p.shrink = size - 1
		}
		break
	}
	if p.shrink < 0 {
		panic(fmt.Sprintf("resize policy of %v cannot be measured: no table size at which a bucket-emptying delete shrinks the grown table", kind))
	}
	return *p
}
