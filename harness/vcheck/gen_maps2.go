package main

import "fmt"

// Generators for C05, C07, C08, C13 and C16 on Map / MapOf.

var mapKinds = []ContainerKind{CMap, CMapOfInt}

func lvlOf(tier string) int {
	if tier == "thorough" {
		return 1
	}
	return 0
}

func finish(ms []*MapScen, prop string, classes int, checkFn bool) []*Scenario {
	for _, m := range ms {
		m.Prop, m.CheckFn = prop, checkFn
		if m.Classes == 0 {
			m.Classes = classes // (a scenario may have narrowed its own oracle classes)
		}
	}
	return toScenarios(ms)
}

// ---- C05: get-or-create and compute are atomic per key; user function runs once ----

func genC05Maps(level int) []*MapScen {
	var out []*MapScen
	opInc := MIn{Op: MCompute, Fn: FnInc}
	goc := []MIn{opLoS, opLoC}
	rmw := []MIn{opInc, opLaS, opCSet}
	for _, c := range mapKinds {
		add := func(ms *MapScen) { ms.C = c; out = append(out, ms) }
		for _, init := range [][]int{{0, 0}, {1, 0}} {
			// two racers
			for _, set := range [][]MIn{goc, rmw} {
				for i, a := range set {
					for j, b := range set {
						if j < i {
							continue
						}
						add(&MapScen{Rel: RelSS, NKeys: 2, Init: init, Table: TPlain, Threads: [][]MIn{{on(a, 0)}, {on(b, 0)}}})
						// with a writer to a bucket mate as third thread
						add(&MapScen{Rel: RelSS, NKeys: 2, Init: init, Table: TPlain, Threads: [][]MIn{{on(a, 0)}, {on(b, 0)}, {on(opStore, 1)}}})
						if level >= 1 {
							add(&MapScen{Rel: RelSS, NKeys: 2, Init: init, Table: TPlain, Threads: [][]MIn{{on(a, 0)}, {on(b, 0)}, {on(opDelete, 1)}}})
							add(&MapScen{Rel: RelSS, NKeys: 2, Init: init, Table: TChain2, FillFirst: true, Threads: [][]MIn{{on(a, 0)}, {on(b, 0)}}})
						}
					}
				}
			}
			// three racers
			for _, set := range [][]MIn{goc, rmw} {
				for i, a := range set {
					for j, b := range set {
						for k, c3 := range set {
							if j < i || k < j {
								continue
							}
							if level == 0 && !(i == j && j == k) && !(i == 0 && k == len(set)-1) {
								continue
							}
							add(&MapScen{Rel: RelSS, NKeys: 2, Init: init, Table: TPlain, Threads: [][]MIn{{on(a, 0)}, {on(b, 0)}, {on(c3, 0)}}})
						}
					}
				}
			}
		}
		if level >= 1 && c != CMap {
			// four racers (thorough)
			for _, a := range []MIn{opLoS, opLoC, opInc} {
				for _, init := range [][]int{{0, 0}, {1, 0}} {
					add(&MapScen{Rel: RelSS, NKeys: 2, Init: init, Table: TPlain, Bound: 3, Threads: [][]MIn{{on(a, 0)}, {on(a, 0)}, {on(a, 0)}, {on(a, 0)}}})
				}
			}
		}
		// mixed: a deleter among get-or-create racers (user function must still run at most once per call)
		for _, a := range goc {
			add(&MapScen{Rel: RelSS, NKeys: 2, Init: []int{1, 0}, Table: TPlain, Threads: [][]MIn{{on(a, 0)}, {on(a, 0)}, {on(opDelete, 0)}}})
		}
		// retry paths: the racers' first attempt finds a full chain above the load factor, so one of
		// them resizes and the other waits / retries on the newer table. The user function must
		// still run exactly once (Compute) / at most once (LoadOrCompute).
		for _, a := range []MIn{opLoC, opInc, opLoS} {
			// one racer resizes while the other hits the same key
			add(&MapScen{Rel: RelSD, NKeys: 2, Init: []int{0, 0}, Table: TGrowArmed, Bound: 2, Threads: [][]MIn{{on(a, 0)}, {on(a, 0)}}, ExpectGrow: true})
			// a different thread triggers the grow; racer on a key of another bucket retries after the resize
			add(&MapScen{Rel: RelDD, NKeys: 2, Init: []int{0, 0}, Table: TGrowArmed, Threads: [][]MIn{{on(opStore, 0)}, {on(a, 1)}}, ExpectGrow: true})
			add(&MapScen{Rel: RelDD, NKeys: 2, Init: []int{0, 1}, Table: TGrowArmed, Threads: [][]MIn{{on(opStore, 0)}, {on(a, 1)}}, ExpectGrow: true})
			if level >= 1 {
				add(&MapScen{Rel: RelSD, NKeys: 2, Init: []int{0, 0}, Table: TGrowArmed, Bound: 3, Threads: [][]MIn{{on(a, 0)}, {on(a, 0)}, {on(a, 0)}}, ExpectGrow: true})
				add(&MapScen{Rel: RelDD, NKeys: 2, Init: []int{1, 0}, Table: TShrinkArmed, Threads: [][]MIn{{on(opDelete, 0)}, {on(a, 1)}}, ExpectShrink: true})
			}
		}
	}
	return out
}

// ---- C07: Range against writers, resizes and Clear; visitor re-entrancy ----

func genC07Maps(level int) []*MapScen {
	var out []*MapScen
	for _, c := range mapKinds {
		add := func(ms *MapScen) { ms.C = c; out = append(out, ms) }
		writers := []MIn{opStore, opDelete, opLaS, opLoS, opCDel, opClear}
		for _, rel := range []KeyRel{RelSD, RelDD, RelLate} {
			for _, w := range writers {
				// k1 and k2 stay present and untouched: must be visited. k0 is written.
				for _, i0 := range []int{0, 1} {
					if w.Op == MClear && i0 == 1 {
						continue
					}
					add(&MapScen{Rel: rel, NKeys: 3, Init: []int{i0, 1, 1}, Table: TPlain, Threads: [][]MIn{{opRange}, {on(w, 0)}}})
				}
			}
			// delete + reinsert in the vacated slot while the traversal runs
			add(&MapScen{Rel: rel, NKeys: 3, Init: []int{1, 0, 1}, Table: TPlain, Threads: [][]MIn{{opRange}, {on(opDelete, 0), on(opStore, 1)}}})
			add(&MapScen{Rel: rel, NKeys: 3, Init: []int{1, 0, 1}, Table: TPlain, Threads: [][]MIn{{opRange}, {on(opDelete, 0), on(opStore, 0)}}})
		}
		// chains of length 2
		for _, ff := range []bool{false, true} {
			for _, w := range []MIn{opStore, opDelete} {
				add(&MapScen{Rel: RelSD, NKeys: 3, Init: []int{1, 1, 0}, Table: TChain2, FillFirst: ff, Threads: [][]MIn{{opRange}, {on(w, 0)}}})
				add(&MapScen{Rel: RelSD, NKeys: 3, Init: []int{1, 1, 0}, Table: TChain2, FillFirst: ff, Threads: [][]MIn{{opRange}, {on(w, 2)}}})
			}
		}
		// a key is deleted, its slot refilled by another key, and the key re-inserted (further down the chain)
		// while the chain is being traversed: it must still be visited at most once
		for _, tb := range []TableCond{TPlain, TChain2} {
			add(&MapScen{Rel: RelSD, NKeys: 3, Init: []int{1, 1, 0}, Table: tb, Threads: [][]MIn{{opRange}, {on(opDelete, 0), on(opStore, 2), on(opStore, 0)}}})
			add(&MapScen{Rel: RelSD, NKeys: 3, Init: []int{1, 1, 0}, Table: tb, Threads: [][]MIn{{opRange}, {on(opDelete, 1), on(opStore, 2), on(opStore, 1)}}})
		}
		// very long chains (every key of the container in one bucket chain)
		add(&MapScen{Rel: RelSD, NKeys: 3, Init: []int{1, 1, 0}, Table: TLongChain, Threads: [][]MIn{{opRange}}})
		add(&MapScen{Rel: RelSD, NKeys: 3, Init: []int{1, 1, 0}, Table: TLongChain, Threads: [][]MIn{{opRange}, {on(opStore, 2)}}})
		add(&MapScen{Rel: RelSD, NKeys: 3, Init: []int{1, 1, 0}, Table: TLongChain, Threads: [][]MIn{{opRange}, {on(opDelete, 0)}}})
		// traversal / lookups while a chain is extended by a new bucket
		add(&MapScen{Rel: RelSD, NKeys: 3, Init: []int{0, 1, 1}, Table: TFullChain, Threads: [][]MIn{{opRange}, {on(opStore, 0)}}})
		add(&MapScen{Rel: RelSD, NKeys: 3, Init: []int{0, 1, 1}, Table: TFullChain, Threads: [][]MIn{{opRange}, {on(opStore, 0), on(opDelete, 1)}}})
		// traversal while the table grows / shrinks
		add(&MapScen{Rel: RelSD, NKeys: 2, Init: []int{0, 1}, Table: TGrowArmed, Threads: [][]MIn{{opRange}, {on(opStore, 0)}}, ExpectGrow: true})
		add(&MapScen{Rel: RelLate, NKeys: 2, Init: []int{0, 1}, Table: TGrowArmed, Threads: [][]MIn{{opRange}, {on(opStore, 0)}}, ExpectGrow: true})
		add(&MapScen{Rel: RelDD, NKeys: 2, Init: []int{1, 1}, Table: TShrinkArmed, Threads: [][]MIn{{opRange}, {on(opDelete, 0)}}, ExpectShrink: true})
		// the grown chain has an overflow bucket (its keys must still be visited by a traversal of the old table)
		add(&MapScen{Rel: RelSD, NKeys: 2, Init: []int{0, 1}, Table: TGrowArmed, Chain: 2, Threads: [][]MIn{{opRange}, {on(opStore, 0)}}, ExpectGrow: true})
		add(&MapScen{Rel: RelSD, NKeys: 2, Init: []int{0, 1}, Table: TGrowArmed, Chain: 2, FillFirst: true, Threads: [][]MIn{{opRange}, {on(opStore, 0)}}, ExpectGrow: true})
		// traversals of a map that has grown and shrunk back before
		for _, w := range []MIn{opStore, opDelete} {
			add(&MapScen{Rel: RelSD, NKeys: 3, Init: []int{1, 1, 0}, Table: TPlain, Cycled: true, Threads: [][]MIn{{opRange}, {on(w, 0)}}})
			add(&MapScen{Rel: RelDD, NKeys: 3, Init: []int{1, 1, 0}, Table: TChain2, Cycled: true, Threads: [][]MIn{{opRange}, {on(w, 2)}}})
		}
		add(&MapScen{Rel: RelSD, NKeys: 2, Init: []int{0, 1}, Table: TGrowArmed, Cycled: true, Threads: [][]MIn{{opRange}, {on(opStore, 0)}}, ExpectGrow: true})
		// chains of exactly three and four buckets
		for _, ch := range []int{3, 4} {
			add(&MapScen{Rel: RelSD, NKeys: 3, Init: []int{1, 1, 0}, Table: TChain2, Chain: ch, FillFirst: true, Threads: [][]MIn{{opRange}, {on(opDelete, 0), on(opStore, 2)}}})
			add(&MapScen{Rel: RelSD, NKeys: 3, Init: []int{1, 1, 0}, Table: TChain2, Chain: ch, Threads: [][]MIn{{opRange}, {on(opStore, 2)}}})
		}
		// a traversal that spans two table replacements (grow then Clear, Clear then a store, Clear twice)
		add(&MapScen{Rel: RelSD, NKeys: 2, Init: []int{0, 1}, Table: TGrowArmed, Threads: [][]MIn{{opRange}, {on(opStore, 0), opClear}}, ExpectGrow: true})
		add(&MapScen{Rel: RelDD, NKeys: 3, Init: []int{1, 1, 0}, Table: TPlain, Threads: [][]MIn{{opRange}, {opClear, on(opStore, 2)}}})
		add(&MapScen{Rel: RelDD, NKeys: 3, Init: []int{1, 1, 0}, Table: TPlain, Threads: [][]MIn{{opRange}, {opClear, opClear}}})
		// keys (and bystanders) that change their bucket when the table is replaced
		add(&MapScen{Rel: RelSplit, NKeys: 2, Init: []int{0, 1}, Table: TGrowArmed, Threads: [][]MIn{{opRange}, {on(opStore, 0)}}, ExpectGrow: true})
		if level >= 1 {
			add(&MapScen{Rel: RelLate, NKeys: 2, Init: []int{1, 1}, Table: TShrinkArmed, Threads: [][]MIn{{opRange}, {on(opDelete, 0)}}, ExpectShrink: true})
			// two writers
			for _, w1 := range []MIn{opStore, opDelete} {
				for _, w2 := range []MIn{opStore, opDelete, opClear} {
					add(&MapScen{Rel: RelDD, NKeys: 3, Init: []int{1, 1, 1}, Table: TPlain, Bound: 3, Threads: [][]MIn{{opRange}, {on(w1, 0)}, {on(w2, 1)}}})
				}
			}
			// two traversals and a writer
			add(&MapScen{Rel: RelSD, NKeys: 3, Init: []int{1, 1, 0}, Table: TPlain, Bound: 3, Threads: [][]MIn{{opRange}, {opRange}, {on(opStore, 2)}}})
		}
		// visitor re-entrancy (sequential and against a writer): the visitor may insert, update or delete
		for _, vo := range []MIn{on(opStore, 2), on(opStore, -1), on(opDelete, -1), on(opDelete, 1), opClear, on(opLoS, 2), on(opLaD, -1), opRange} {
			vo := vo
			add(&MapScen{Rel: RelSD, NKeys: 3, Init: []int{1, 1, 0}, Table: TPlain, Threads: [][]MIn{{opRange}}, VisitorOp: &vo})
			add(&MapScen{Rel: RelDD, NKeys: 3, Init: []int{1, 1, 0}, Table: TPlain, Threads: [][]MIn{{opRange}}, VisitorOp: &vo})
			if level >= 1 {
				add(&MapScen{Rel: RelSD, NKeys: 3, Init: []int{1, 1, 0}, Table: TPlain, Threads: [][]MIn{{opRange}, {on(opStore, 0)}}, VisitorOp: &vo})
			}
		}
	}
	return out
}

// ---- C08: quiescent Size == physical entries, after resize/insert/delete races ----

func genC08Maps(level int) []*MapScen {
	var out []*MapScen
	for _, c := range mapKinds {
		add := func(ms *MapScen) { ms.C = c; out = append(out, ms) }
		// delete racing insert of the same key
		for _, a := range insertOps {
			for _, b := range removeOps {
				for _, init := range [][]int{{0, 0}, {1, 0}} {
					add(&MapScen{Rel: RelSS, NKeys: 2, Init: init, Table: TPlain, Threads: [][]MIn{{on(a, 0)}, {on(b, 0)}}})
				}
			}
		}
		for _, a := range removeOps {
			add(&MapScen{Rel: RelSS, NKeys: 2, Init: []int{1, 0}, Table: TPlain, Threads: [][]MIn{{on(a, 0)}, {on(a, 0)}}})
		}
		for _, a := range insertOps {
			add(&MapScen{Rel: RelSS, NKeys: 2, Init: []int{0, 0}, Table: TPlain, Threads: [][]MIn{{on(a, 0)}, {on(a, 0)}}})
		}
		// writers completing before / during / after the table copy (early, same and late buckets)
		for _, rel := range []KeyRel{RelSD, RelDD, RelLate} {
			for _, w := range []MIn{opStore, opDelete, opLaD, opLoS, opClear} {
				for _, i1 := range []int{0, 1} {
					add(&MapScen{Rel: rel, NKeys: 2, Init: []int{0, i1}, Table: TGrowArmed, Threads: [][]MIn{{on(opStore, 0)}, {on(w, 1)}}, ExpectGrow: true})
				}
			}
		}
		for _, rel := range []KeyRel{RelDD, RelLate} {
			for _, w := range []MIn{opStore, opDelete, opLaD, opLoS, opClear} {
				for _, i1 := range []int{0, 1} {
					add(&MapScen{Rel: rel, NKeys: 2, Init: []int{1, i1}, Table: TShrinkArmed, Threads: [][]MIn{{on(opDelete, 0)}, {on(w, 1)}}, ExpectShrink: true})
				}
			}
		}
		// Clear against writers
		for _, w := range writeOps {
			add(&MapScen{Rel: RelSS, NKeys: 2, Init: []int{1, 0}, Table: TPlain, Threads: [][]MIn{{opClear}, {on(w, 0)}}})
		}
		// a grow-only map: Size is 0 after Clear
		for _, cyc := range []bool{false, true} {
			add(&MapScen{Rel: RelSD, NKeys: 2, Init: []int{1, 1}, Table: TPlain, GrowOnly: true, Cycled: cyc, Threads: [][]MIn{{opClear}, {on(opStore, 1)}}})
			add(&MapScen{Rel: RelSD, NKeys: 2, Init: []int{1, 1}, Table: TPlain, GrowOnly: true, Cycled: cyc, Threads: [][]MIn{{opClear}}})
		}
		// the same on a map that has grown and shrunk back before (used counter stripes, a resize history)
		for _, w := range []MIn{opStore, opDelete, opLaD, opLoS, opClear} {
			add(&MapScen{Rel: RelSS, NKeys: 2, Init: []int{1, 0}, Table: TPlain, Cycled: true, Threads: [][]MIn{{on(opStore, 1)}, {on(w, 0)}}})
			add(&MapScen{Rel: RelDD, NKeys: 2, Init: []int{0, 1}, Table: TGrowArmed, Cycled: true, Threads: [][]MIn{{on(opStore, 0)}, {on(w, 1)}}, ExpectGrow: true})
			add(&MapScen{Rel: RelDD, NKeys: 2, Init: []int{1, 1}, Table: TShrinkArmed, Cycled: true, Threads: [][]MIn{{on(opDelete, 0)}, {on(w, 1)}}, ExpectShrink: true})
		}
		if level >= 1 {
			for _, w := range []MIn{opStore, opDelete} {
				for _, w2 := range []MIn{opStore, opDelete, opClear} {
					add(&MapScen{Rel: RelLate, NKeys: 3, Init: []int{0, 1, 1}, Table: TGrowArmed, Bound: 2, Threads: [][]MIn{{on(opStore, 0)}, {on(w, 1)}, {on(w2, 2)}}, ExpectGrow: true})
				}
			}
			for _, b := range insertOps {
				add(&MapScen{Rel: RelSD, NKeys: 2, Init: []int{0, 0}, Table: TGrowArmed, Bound: 3, Threads: [][]MIn{{on(opStore, 0)}, {on(b, 1)}}, ExpectGrow: true})
			}
		}
	}
	return out
}

// ---- C13: termination families (deadlock, lost wake-up, leaked lock, re-entrancy) ----

func genC13Maps(level int) []*MapScen {
	var out []*MapScen
	// everything that C03/C04/C07 explore is also watched for termination
	out = append(out, genMapFamilies(genCfg{}, CMap, level, true)...)
	out = append(out, genMapFamilies(genCfg{}, CMapOfInt, level, true)...)
	out = append(out, genC07Maps(level)...)
	for _, c := range mapKinds {
		add := func(ms *MapScen) { ms.C = c; out = append(out, ms) }
		// (i) waiters arriving around the resize hand-off: resizer + writer into an early bucket + writer into a late bucket
		for _, w1 := range []MIn{opStore, opDelete} {
			for _, w2 := range []MIn{opStore, opLoad, opClear} {
				add(&MapScen{Rel: RelLate, NKeys: 3, Init: []int{0, 1, 1}, Table: TGrowArmed, Bound: 2, Threads: [][]MIn{{on(opStore, 0)}, {on(w1, 1)}, {on(w2, 2)}}, ExpectGrow: true})
				add(&MapScen{Rel: RelLate, NKeys: 3, Init: []int{1, 1, 1}, Table: TShrinkArmed, Bound: 2, Threads: [][]MIn{{on(opDelete, 0)}, {on(w1, 1)}, {on(w2, 2)}}})
			}
		}
		// two writers of one bucket while the table is replaced under them
		for _, w1 := range []MIn{opStore, opDelete, opLoS} {
			for _, w2 := range []MIn{opStore, opDelete} {
				for _, k2 := range []int{0, 1} {
					add(&MapScen{Rel: RelSS, NKeys: 2, Init: []int{1, 0}, Table: TPlain, Bound: 2, Threads: [][]MIn{{opClear}, {on(w1, 0)}, {on(w2, k2)}}})
				}
				add(&MapScen{Rel: RelSD, NKeys: 3, Init: []int{0, 1, 0}, Table: TGrowArmed, Bound: 2, Threads: [][]MIn{{on(opStore, 0)}, {on(w1, 1)}, {on(w2, 1)}}, ExpectGrow: true})
			}
		}
		// abandoned shrink: two deleters empty their buckets at once; the second shrink request finds nothing to do
		add(&MapScen{Rel: RelDD, NKeys: 3, Init: []int{1, 1, 0}, Table: TShrinkArmed, Threads: [][]MIn{{on(opDelete, 0)}, {on(opDelete, 1)}}})
		add(&MapScen{Rel: RelDD, NKeys: 3, Init: []int{1, 1, 0}, Table: TShrinkArmed, Bound: 2, Threads: [][]MIn{{on(opDelete, 0)}, {on(opDelete, 1)}, {on(opStore, 2)}}})
		// (ii) every early-return path of the write path, followed by a second write to the same bucket by the same thread
		second := []MIn{on(opStore, 1), on(opDelete, 0)}
		for _, first := range []MIn{opLoS, opLoC, opCDel, opLaD, opDelete, opCSet, opLaS, {Op: MCompute, Fn: FnDelIfPresent}} {
			for _, i0 := range []int{0, 1} {
				for _, sec := range second {
					add(&MapScen{Rel: RelSS, NKeys: 2, Init: []int{i0, 0}, Table: TPlain, Threads: [][]MIn{{on(first, 0), sec}, {on(opStore, 1)}}})
					add(&MapScen{Rel: RelSS, NKeys: 2, Init: []int{i0, 0}, Table: TChain2, Threads: [][]MIn{{on(first, 0), sec}}})
				}
			}
		}
	}
	return out
}

// ---- C16: lookups never wait for writers ----

func genC16Maps(level int) []*MapScen {
	var out []*MapScen
	opCPark := MIn{Op: MCompute, Fn: FnSet} // its user function contains a Park point
	readers := []MIn{opLoad, opLoS, opLoC, opSize}
	kinds := []ContainerKind{CMap, CMapOfInt, CMapOfStr, CMapOfStruct}
	for ci, c := range kinds {
		add := func(ms *MapScen) {
			ms.C = c
			ms.NoBlock = []bool{true, false}
			ms.MaxSteps = []int{80, 0}
			if ms.Table == TLongChain {
				// one pass over a chain of 42-70 buckets takes 110-220 own steps; a second pass (a retry) exceeds the bound
				ms.MaxSteps = []int{300, 0}
			}
			out = append(out, ms)
		}
		stallers := []MIn{opStore, opDelete, opLaS, opCPark, opCDel, opLoC, opClear, opRange}
		if ci >= 2 && level == 0 {
			stallers = []MIn{opStore, opDelete, opCPark, opClear} // secondary key types: the core pairs
		}
		if c == CMap {
			// a present key holding the nil interface value: its lookups and hit paths do not wait either
			for _, rd := range []MIn{opLoad, opLoS, opLoC} {
				for _, st := range []MIn{opStore, opCPark, opDelete} {
					ms := &MapScen{Rel: RelSD, NKeys: 2, Init: []int{1, 1}, Table: TPlain, NilValue: true, Threads: [][]MIn{{on(rd, 0)}, {on(st, 1)}}}
					add(ms)
					ms.Classes = OMon
				}
			}
		}
		for _, rd := range readers {
			hit := rd.Op == MLoadOrStore || rd.Op == MLoadOrCompute
			if ci < 2 || level >= 1 {
				// lookups through an overflow bucket and through a very long chain
				for _, st := range []MIn{opStore, opDelete, opCPark} {
					for _, ff := range []bool{false, true} {
						add(&MapScen{Rel: RelSD, NKeys: 3, Init: []int{1, 1, 0}, Table: TChain2, FillFirst: ff, Threads: [][]MIn{{on(rd, 0)}, {on(st, 1)}}})
						add(&MapScen{Rel: RelSD, NKeys: 3, Init: []int{1, 1, 0}, Table: TChain2, FillFirst: ff, Threads: [][]MIn{{on(rd, 0)}, {on(st, 2)}}})
					}
					add(&MapScen{Rel: RelSD, NKeys: 3, Init: []int{1, 1, 0}, Table: TLongChain, Threads: [][]MIn{{on(rd, 0)}, {on(st, 1)}}})
					if rd.Op == MLoad {
						add(&MapScen{Rel: RelSD, NKeys: 3, Init: []int{1, 1, 0}, Table: TLongChain, Threads: [][]MIn{{on(rd, 2)}, {on(st, 2)}}})
					}
				}
				// two stallers
				ms3 := &MapScen{Rel: RelSS, NKeys: 3, Init: []int{1, 1, 0}, Table: TPlain, Threads: [][]MIn{{on(rd, 0)}, {on(opCPark, 1)}, {on(opStore, 2)}}}
				ms3.C, ms3.NoBlock, ms3.MaxSteps = c, []bool{true, false, false}, []int{80, 0, 0}
				out = append(out, ms3)
				ms4 := &MapScen{Rel: RelSS, NKeys: 3, Init: []int{1, 1, 0}, Table: TPlain, Threads: [][]MIn{{on(rd, 0)}, {on(opDelete, 1)}, {on(opStore, 2)}}}
				ms4.C, ms4.NoBlock, ms4.MaxSteps = c, []bool{true, false, false}, []int{80, 0, 0}
				out = append(out, ms4)
			}
			for _, st := range stallers {
				if hit && st.Op == MClear {
					continue // the hit path needs the key to stay present
				}
				removes := st.Op == MDelete || st.Op == MLoadAndDelete || (st.Op == MCompute && st.Fn == FnDel)
				// same key (present: hit path of LoadOrStore/LoadOrCompute), bucket mate, unrelated key
				if !(hit && removes) {
					add(&MapScen{Rel: RelSS, NKeys: 2, Init: []int{1, 1}, Table: TPlain, Threads: [][]MIn{{on(rd, 0)}, {on(st, 0)}}})
				}
				add(&MapScen{Rel: RelSS, NKeys: 2, Init: []int{1, 1}, Table: TPlain, Threads: [][]MIn{{on(rd, 0)}, {on(st, 1)}}})
				add(&MapScen{Rel: RelDD, NKeys: 2, Init: []int{1, 1}, Table: TPlain, Threads: [][]MIn{{on(rd, 0)}, {on(st, 1)}}})
				if rd.Op == MLoad || rd.Op == MSize {
					add(&MapScen{Rel: RelSS, NKeys: 2, Init: []int{1, 1}, Table: TPlain, Threads: [][]MIn{{on(rd, 0)}, {on(opDelete, 0), on(opStore, 1)}}})
					// lookups of an absent key
					add(&MapScen{Rel: RelSS, NKeys: 2, Init: []int{0, 1}, Table: TPlain, Threads: [][]MIn{{on(rd, 0)}, {on(st, 1)}}})
				}
			}
			// chain extension and resizes in flight
			add(&MapScen{Rel: RelSD, NKeys: 2, Init: []int{0, 1}, Table: TFullChain, Threads: [][]MIn{{on(rd, 1)}, {on(opStore, 0)}}})
			if rd.Op == MLoad {
				add(&MapScen{Rel: RelSD, NKeys: 2, Init: []int{0, 1}, Table: TFullChain, Threads: [][]MIn{{on(rd, 0)}, {on(opStore, 0)}}})
			}
			add(&MapScen{Rel: RelSD, NKeys: 2, Init: []int{0, 1}, Table: TGrowArmed, Threads: [][]MIn{{on(rd, 1)}, {on(opStore, 0)}}, ExpectGrow: true})
			add(&MapScen{Rel: RelSD, NKeys: 2, Init: []int{0, 1}, Table: TGrowArmed, Chain: 2, FillFirst: true, Threads: [][]MIn{{on(rd, 1)}, {on(opStore, 0)}}, ExpectGrow: true})
			add(&MapScen{Rel: RelLate, NKeys: 2, Init: []int{0, 1}, Table: TGrowArmed, Threads: [][]MIn{{on(rd, 1)}, {on(opStore, 0)}}, ExpectGrow: true})
			add(&MapScen{Rel: RelDD, NKeys: 2, Init: []int{1, 1}, Table: TShrinkArmed, Threads: [][]MIn{{on(rd, 1)}, {on(opDelete, 0)}}, ExpectShrink: true})
			if rd.Op == MLoad {
				add(&MapScen{Rel: RelSD, NKeys: 2, Init: []int{0, 1}, Table: TGrowArmed, Threads: [][]MIn{{on(rd, 0)}, {on(opStore, 0)}}, ExpectGrow: true})
			}
		}
	}
	return out
}

func init() {
	scenarioGens["C05maps"] = func(tier string) []*Scenario {
		return finish(genC05Maps(lvlOf(tier)), "C05", OLin|OFn, true)
	}
	scenarioGens["C07maps"] = func(tier string) []*Scenario {
		return finish(genC07Maps(lvlOf(tier)), "C07", OLin|ORange, false)
	}
	scenarioGens["C08maps"] = func(tier string) []*Scenario {
		return finish(genC08Maps(lvlOf(tier)), "C08", OCount, false)
	}
	scenarioGens["C13maps"] = func(tier string) []*Scenario {
		out := finish(genC13Maps(lvlOf(tier)), "C13", OTerm, false)
		// very long sequential histories (300000 keys, 131072 root buckets): every call returns
		for kind := 0; kind < 2; kind++ {
			name := fmt.Sprintf("C13/resize-histories/%s/huge-table/termination", bulkKinds[kind])
			sp := bulkSpec(name, kind, 0, 1, 300000, 1, 0)
			inner := sp.New
			sp.New = func() SeqInst { bi := inner().(*bulkInst); bi.termOnly = true; return bi }
			out = append(out, &Scenario{Name: name, Prop: "C13", Seq: sp})
		}
		return out
	}
	scenarioGens["C16maps"] = func(tier string) []*Scenario {
		return finish(genC16Maps(lvlOf(tier)), "C16", OMon|OLin, false)
	}
	for _, p := range []string{"C05", "C07", "C08", "C13", "C16"} {
		assume := e1Assumptions
		if p == "C08" {
			assume = append(append([]string{}, e1Assumptions...), e2Assumptions...) // C08 also runs a sequence search
		}
		checks[p] = func(rc *runCtx) int { return runE1Check(rc, assume, nil) }
	}
}
