package main

import (
	"fmt"
	"math"

	cache "github.com/fufuok/cache"
)

// ---- C03 / C04, value kinds: Map and MapOf[string, interface{}] hand back exactly the value that was
// stored, for every kind of value the integer alphabets of the schedule exploration lack (nil, typed nil,
// functions, maps, slices - any == on values inside the library panics -, NaN, padded structs). A finite
// catalogue: value kind x every call of the API, sequentially; a panic is a violation.

type anyMap interface {
	Load(k string) (interface{}, bool)
	Store(k string, v interface{})
	LoadOrStore(k string, v interface{}) (interface{}, bool)
	LoadAndStore(k string, v interface{}) (interface{}, bool)
	LoadOrCompute(k string, f func() interface{}) (interface{}, bool)
	Compute(k string, f func(old interface{}, loaded bool) (interface{}, bool)) (interface{}, bool)
	LoadAndDelete(k string) (interface{}, bool)
	Delete(k string)
	Range(f func(k string, v interface{}) bool)
	Clear()
	Size() int
}

func mapValueKinds(prop string) ([]Finding, int) {
	type padded struct {
		A int8
		B int64
	}
	x := 7
	values := []struct {
		name string
		v    interface{}
	}{
		{"nil", nil}, {"typed nil pointer", (*int)(nil)}, {"pointer", &x}, {"func", func() {}}, {"map", map[string]int{"a": 1}},
		{"slice", []int{1, 2}}, {"NaN", math.NaN()}, {"padded struct", padded{1, 2}}, {"chan", make(chan int)}, {"string", "s"},
	}
	var out []Finding
	seen := map[string]bool{}
	n := 0
	for _, val := range values {
		n++
		v := val.v
		problem := func() (p string) {
			defer func() {
				if r := recover(); r != nil {
					p = fmt.Sprintf("panic: %v", r)
				}
			}()
			installCacheLayout(nil)
			var m anyMap
			if prop == "C03" {
				m = cache.NewMap()
			} else {
				m = cache.NewMapOf[string, interface{}]()
			}
			m.Store("k", v)
			if got, ok := m.Load("k"); !ok || !sameValue(got, v) {
				return fmt.Sprintf("Load returned (%v,%v)", got, ok)
			}
			m.Store("k", v) // over itself
			if got, loaded := m.LoadOrStore("k", "other"); !loaded || !sameValue(got, v) {
				return fmt.Sprintf("LoadOrStore on the present key returned (%v,%v)", got, loaded)
			}
			if got, loaded := m.LoadOrCompute("k", func() interface{} { return "other" }); !loaded || !sameValue(got, v) {
				return fmt.Sprintf("LoadOrCompute on the present key returned (%v,%v)", got, loaded)
			}
			if got, loaded := m.LoadAndStore("k", v); !loaded || !sameValue(got, v) {
				return fmt.Sprintf("LoadAndStore returned (%v,%v)", got, loaded)
			}
			// Compute handing back its input, then a different value, then the value again
			if got, ok := m.Compute("k", func(old interface{}, loaded bool) (interface{}, bool) { return old, false }); !ok || !sameValue(got, v) {
				return fmt.Sprintf("Compute returning its input returned (%v,%v)", got, ok)
			}
			if got, ok := m.Compute("k", func(old interface{}, loaded bool) (interface{}, bool) { return "tmp", false }); !ok || got != "tmp" {
				return fmt.Sprintf("Compute storing another value returned (%v,%v)", got, ok)
			}
			if got, ok := m.Compute("k", func(old interface{}, loaded bool) (interface{}, bool) { return v, false }); !ok || !sameValue(got, v) {
				return fmt.Sprintf("Compute storing the value returned (%v,%v)", got, ok)
			}
			visits := 0
			m.Range(func(k string, got interface{}) bool {
				visits++
				if !sameValue(got, v) {
					visits = -100
				}
				return true
			})
			if visits != 1 || m.Size() != 1 {
				return fmt.Sprintf("Range visits %d, Size %d", visits, m.Size())
			}
			if got, loaded := m.LoadOrStore("k2", v); loaded || !sameValue(got, v) {
				return fmt.Sprintf("LoadOrStore on an absent key returned (%v,%v)", got, loaded)
			}
			if got, loaded := m.LoadOrCompute("k3", func() interface{} { return v }); loaded || !sameValue(got, v) {
				return fmt.Sprintf("LoadOrCompute on an absent key returned (%v,%v)", got, loaded)
			}
			if got, loaded := m.LoadAndDelete("k"); !loaded || !sameValue(got, v) {
				return fmt.Sprintf("LoadAndDelete returned (%v,%v)", got, loaded)
			}
			// (a deleting Compute hands back the value it removed, with ok=false)
			if got, ok := m.Compute("k2", func(old interface{}, loaded bool) (interface{}, bool) { return old, true }); ok || !sameValue(got, v) {
				return fmt.Sprintf("Compute(delete) returned (%v,%v)", got, ok)
			}
			m.Delete("k3")
			if got, ok := m.Load("k"); ok || got != nil || m.Size() != 0 {
				return fmt.Sprintf("after the deletes: Load (%v,%v), Size %d", got, ok, m.Size())
			}
			return ""
		}()
		if problem != "" {
			what := problem
			if len(what) >= 5 && what[:5] == "panic" {
				what = "the call panics"
			} else if j := indexOf(what, " returned"); j > 0 {
				what = what[:j] + " does not return the stored value"
			}
			sig := fmt.Sprintf("value kind %s: %s", val.name, what)
			if !seen[sig] {
				seen[sig] = true
				out = append(out, Finding{Property: prop, Signature: sig, Detail: problem, Replay: map[string]interface{}{"engine": prop + "values"}})
			}
		}
	}
	return out, n
}

func init() {
	for _, p := range []string{"C03", "C04"} {
		p := p
		replayers[p+"values"] = func(path, prop string, payload map[string]interface{}) int {
			f, _ := mapValueKinds(p)
			for _, x := range f {
				fmt.Printf("VIOLATION property=%s replay=%s\n  %s\n  %s\n", p, path, x.Signature, x.Detail)
			}
			if len(f) > 0 {
				return 1
			}
			fmt.Println("no violation")
			return 0
		}
	}
}
