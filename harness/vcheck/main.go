package main

import (
	"encoding/json"
	"flag"
	"fmt"
	"os"
	"time"
)

func main() {
	prop := flag.String("prop", "", "property id")
	tier := flag.String("tier", "quick", "quick|thorough")
	flag.BoolVar(&noSleepSets, "nosleep", false, "disable sleep sets")
	flag.Parse()
	_ = tier
	switch *prop {
	case "trial":
		trial()
	default:
		fmt.Fprintln(os.Stderr, "unknown property", *prop)
		os.Exit(2)
	}
}

func trial() {
	scens := []*MapScen{
		{Prop: "T", C: CMap, Rel: RelSS, NKeys: 2, Init: []int{1, 0}, Table: TPlain,
			Threads: [][]MIn{{{Op: MStore, K: 0}}, {{Op: MLoad, K: 0}}}},
		{Prop: "T", C: CMap, Rel: RelSS, NKeys: 2, Init: []int{1, 0}, Table: TPlain,
			Threads: [][]MIn{{{Op: MDelete, K: 0}, {Op: MStore, K: 1}}, {{Op: MLoad, K: 1}}}},
		{Prop: "T", C: CMapOfInt, Rel: RelSS, NKeys: 2, Init: []int{1, 0}, Table: TPlain,
			Threads: [][]MIn{{{Op: MDelete, K: 0}, {Op: MStore, K: 1}}, {{Op: MLoad, K: 1}}}},
		{Prop: "T", C: CMap, Rel: RelSD, NKeys: 2, Init: []int{0, 0}, Table: TGrowArmed,
			Threads: [][]MIn{{{Op: MStore, K: 0}}, {{Op: MStore, K: 1}}}},
		{Prop: "T", C: CMap, Rel: RelSD, NKeys: 2, Init: []int{1, 0}, Table: TGrowArmed,
			Threads: [][]MIn{{{Op: MStore, K: 1}}, {{Op: MClear}}}},
		{Prop: "T", C: CMapOfInt, Rel: RelSD, NKeys: 2, Init: []int{0, 0}, Table: TGrowArmed,
			Threads: [][]MIn{{{Op: MStore, K: 0}}, {{Op: MStore, K: 1}}}},
		{Prop: "T", C: CMap, Rel: RelDD, NKeys: 2, Init: []int{1, 0}, Table: TShrinkArmed,
			Threads: [][]MIn{{{Op: MDelete, K: 0}}, {{Op: MStore, K: 1}}}},
	}
	for _, ms := range scens {
		t0 := time.Now()
		st := Explore(ms.Scenario(), ExploreOpts{Deadline: time.Now().Add(120 * time.Second)})
		b, _ := json.Marshal(struct {
			*ExploreStats
			SampleSched []string `json:"sample_schedule,omitempty"`
		}{ExploreStats: st})
		fmt.Printf("%s\n  %s\n  took %v, outcomes=%d\n", ms.name(), b, time.Since(t0), len(st.Outcomes))
	}
}
