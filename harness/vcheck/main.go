package main

import (
	"encoding/json"
	"flag"
	"fmt"
	"os"
	"runtime/pprof"
	"strconv"
	"strings"
	"time"
)

// checks maps a property id to its driver; a driver returns the process exit code.
var checks = map[string]func(rc *runCtx) int{}

func main() {
	rc := &runCtx{t0: time.Now()}
	flag.StringVar(&rc.Prop, "prop", "", "property id")
	flag.StringVar(&rc.Tier, "tier", "quick", "quick|thorough")
	flag.StringVar(&rc.Evidence, "evidence", "", "evidence file to write")
	flag.StringVar(&rc.ReplayDir, "replays", "/verif/replays", "directory for replay files")
	flag.StringVar(&rc.KnownFile, "known", "/verif/known_findings.json", "known findings file")
	flag.IntVar(&rc.Workers, "workers", numCPU(), "worker processes")
	flag.DurationVar(&rc.Budget, "budget", 0, "soft wall-clock budget for exploration")
	flag.IntVar(&rc.HookCount, "hooks", 0, "number of substitutions made by the instrumenter")
	flag.BoolVar(&noSleepSets, "nosleep", false, "disable sleep sets")
	worker := flag.Bool("worker", false, "internal: E1 worker")
	replay := flag.String("replay", "", "replay file")
	list := flag.Bool("list", false, "list scenarios")
	prof := flag.String("cpuprofile", "", "write cpu profile")
	memprof := flag.String("memprofile", "", "write heap profile when the worker's input ends")
	flag.Parse()
	if *prof != "" {
		f, _ := os.Create(*prof)
		pprof.StartCPUProfile(f)
		defer pprof.StopCPUProfile()
	}
	if s := os.Getenv("VERIF_SEED"); s != "" {
		rc.Seed, _ = strconv.ParseInt(s, 10, 64)
	}
	if rc.Budget == 0 {
		// soft caps (never an oracle): a run that reaches its cap reports exhaustive=false and what it covered.
		// The quick tier needs 1-2 minutes on 16 idle cores; the cap leaves room for a loaded machine.
		rc.Budget = 6 * time.Minute
		if rc.Tier == "thorough" {
			rc.Budget = 60 * time.Minute
		}
	}
	if *replay != "" {
		os.Exit(replayFile(*replay))
	}
	if *worker {
		workerMain(rc)
		if *memprof != "" {
			f, _ := os.Create(*memprof)
			pprof.WriteHeapProfile(f)
			f.Close()
		}
		return
	}
	if *list {
		for i, s := range scenarioGens[rc.Prop](rc.Tier) {
			fmt.Println(i, s.Name)
		}
		return
	}
	if rc.Evidence == "" {
		rc.Evidence = "/verif/evidence/" + rc.Prop + ".json"
	}
	fn := checks[rc.Prop]
	if fn == nil {
		fmt.Fprintln(os.Stderr, "unknown property", rc.Prop)
		os.Exit(2)
	}
	os.Exit(fn(rc))
}

// runE1Check is the common driver of the properties decided by schedule exploration.
func runE1Check(rc *runCtx, assumptions []string, extra func(cov map[string]interface{})) int {
	scs := scenarioGens[rc.Prop](rc.Tier)
	sum := runE1(rc, scs)
	cov := sum.coverage(scs)
	if extra != nil {
		extra(cov)
	}
	if extraFindings != nil {
		sum.Findings = append(sum.Findings, extraFindings(cov)...)
		extraFindings = nil
	}
	if len(sum.Infra) > 0 {
		for _, m := range sum.Infra {
			fmt.Fprintln(os.Stderr, "INFRASTRUCTURE:", firstN(m, 600))
		}
		cov["infrastructure_errors"] = sum.Infra
		if len(sum.Findings) == 0 {
			rc.writeEvidence(cov, assumptions, 0)
			return 2
		}
		// reproducible violations were found as well: they are reported (exit 1); the parts of the
		// exploration that broke down are listed in the evidence
	}
	if dbg := os.Getenv("VERIF_DEBUG_STATS"); dbg != "" {
		f, _ := os.Create(dbg)
		for _, st := range sum.Stats {
			if st != nil {
				fmt.Fprintf(f, "%d\t%d\t%d\t%s\t%s\n", st.WallMs, st.States, st.Executions, st.Fallback, st.Scenario)
			}
		}
		f.Close()
	}
	exit, known, viol := rc.report(sum.Findings)
	cov["known_findings_reported"] = known
	rc.writeEvidence(cov, assumptions, viol)
	fmt.Printf("%s %s: scenarios=%d executions=%d states=%d transitions=%d distinct_outcomes=%d exhaustive=%v violations=%d known=%d wall=%.1fs\n",
		rc.Prop, rc.Tier, len(scs), sum.Execs, sum.States, sum.Trans, sum.Outcomes, sum.Exhaustive, viol, known, time.Since(rc.t0).Seconds())
	if len(sum.Vacuous) > 0 && viol == 0 && known == 0 {
		fmt.Fprintf(os.Stderr, "INFRASTRUCTURE: %d vacuous scenarios (a single outcome where several were expected), e.g. %s\n", len(sum.Vacuous), sum.Vacuous[0])
		return 2
	}
	return exit
}

// extraFindings lets a property add directly enumerated checks to the explored ones.
var extraFindings func(cov map[string]interface{}) []Finding

var e1Assumptions = []string{
	"executions are sequentially consistent interleavings of the hooked operations (atomics, mutex/cond operations, Gosched, call/return markers); weaker orderings are covered only through data-race freedom (C14)",
	"happens-before state caching and sleep sets assume plain (unhooked) accesses are ordered by the hooked ones (data-race freedom, checked by C14 on the same scenarios)",
	"threads: 2-3, 1-2 calls each; key alphabet of 2-3 keys with forced bucket/tag collisions; tables of 32/64 buckets",
	"the instrumented scratch copy differs from /repo only by import-path substitution (sync, sync/atomic, time, runtime.Gosched) and redirected makeSeed/hashString/defaultHasher call sites",
}

func init() {
	for _, p := range []string{"C03", "C04"} {
		p := p
		checks[p] = func(rc *runCtx) int {
			extraFindings = func(cov map[string]interface{}) []Finding {
				f, n := mapValueKinds(p)
				cov["value_kind_scripts_enumerated"] = n
				return f
			}
			return runE1Check(rc, e1Assumptions, nil)
		}
	}
}

// replayFile re-executes a recorded violation without the explorer.
func replayFile(path string) int {
	b, err := os.ReadFile(path)
	if err != nil {
		fmt.Fprintln(os.Stderr, err)
		return 2
	}
	var f struct {
		Property string
		Replay   map[string]interface{}
	}
	if err := json.Unmarshal(b, &f); err != nil {
		fmt.Fprintln(os.Stderr, err)
		return 2
	}
	switch f.Replay["engine"] {
	case "E1":
		prop, _ := f.Replay["property"].(string)
		tier, _ := f.Replay["tier"].(string)
		name, _ := f.Replay["scenario"].(string)
		var choices []uint8
		switch c := f.Replay["choices"].(type) {
		case string: // []uint8 is marshalled as base64
			json.Unmarshal([]byte(strconv.Quote(c)), &choices)
		case []interface{}:
			for _, x := range c {
				choices = append(choices, uint8(x.(float64)))
			}
		}
		for _, sc := range scenarioGens[prop](tier) {
			if sc.Name == name {
				kind, detail, res, inst := replayChoices(sc, choices)
				fmt.Println("scenario:", name)
				if inst != nil && inst.Describe != nil {
					fmt.Println("history:\n  " + strings.Join(inst.Describe(), "\n  "))
				}
				fmt.Println("schedule:\n  " + strings.Join(scheduleStrings(res), "\n  "))
				if kind != "" {
					fmt.Printf("VIOLATION property=%s replay=%s\n  %s: %s\n", prop, path, kind, detail)
					return 1
				}
				fmt.Println("no violation on this schedule")
				return 0
			}
		}
		fmt.Fprintln(os.Stderr, "scenario not found:", name)
		return 2
	default:
		if fn := replayers[fmt.Sprint(f.Replay["engine"])]; fn != nil {
			return fn(path, f.Property, f.Replay)
		}
	}
	fmt.Fprintln(os.Stderr, "unknown replay engine")
	return 2
}

var replayers = map[string]func(path, prop string, payload map[string]interface{}) int{}
