package main

import (
	"fmt"
	"runtime"
	"strings"
	"time"

	"github.com/fufuok/cache/internal/vshim/sched"
)

// E2: explicit-state search over call/event sequences applied to the real
// code, with a reference model as oracle on every transition. The
// implementation object cannot be cloned, so a state is represented by the
// shortest event sequence that reaches it; a successor is produced by building
// a fresh instance, replaying the sequence and applying one more event.

type SeqInst interface {
	// Apply performs event ev on implementation and model and evaluates the
	// oracle. sig/detail are empty if the oracle holds.
	// With check=false (replay of an already validated prefix) only the effects are applied.
	Apply(ev int, check bool) (sig, detail string)
	// Key is the canonical key of the current state.
	Key() string
	// Log returns the human readable record of the events applied so far.
	Log() []string
	// Close releases the instance (breaks reference cycles through user callbacks, which
	// would keep finalizable cache objects alive forever).
	Close()
}

type SeqSpec struct {
	Name      string
	Events    []string // printable alphabet (index = event id), simplest first
	New       func() SeqInst
	MaxDepth  int // 0 = run to fixpoint
	MaxStates int
	janitor   bool // instances own a real janitor goroutine (construction waits for it to register its ticker)
}

// applySafe: a panic of the code under test in sequential use is a verdict (no call may panic on any
// input the API accepts), not a crash of the search.
func applySafe(inst SeqInst, ev int, check bool) (sig, d string) {
	defer func() {
		if r := recover(); r != nil {
			msg := fmt.Sprint(r)
			if strings.HasPrefix(msg, "INFRASTRUCTURE:") || sched.Active() {
				panic(r)
			}
			if msg == sched.BudgetExceeded {
				sig, d = "the call does not terminate", msg
				return
			}
			first := msg
			if i := strings.IndexByte(first, '\n'); i >= 0 {
				first = first[:i]
			}
			buf := make([]byte, 2048)
			buf = buf[:runtime.Stack(buf, false)]
			sig, d = "the call panics: "+first, msg+"\n"+string(buf)
		}
	}()
	return inst.Apply(ev, check)
}

func (sp *SeqSpec) replay(hist []int, check bool) (SeqInst, string, string) {
	inst := sp.New()
	for _, ev := range hist {
		if sig, d := applySafe(inst, ev, check); sig != "" {
			return inst, sig, d
		}
	}
	return inst, "", ""
}

// ExploreSeq runs the breadth-first search.
func ExploreSeq(sp *SeqSpec, deadline time.Time) *ExploreStats {
	t0 := time.Now()
	st := &ExploreStats{Scenario: sp.Name, Outcomes: map[string]int{}, Exhaustive: true, BoundDone: -1, Deterministic: true}
	maxStates := sp.MaxStates
	if maxStates == 0 {
		maxStates = 2_000_000
	}
	init := sp.New()
	seen := map[string]bool{init.Key(): true}
	init.Close()
	frontier := [][]int{{}}
	seenSig := map[string]bool{}
	depth := 0
	var sample []string
	capped := false
	for len(frontier) > 0 && !capped {
		if sp.MaxDepth > 0 && depth >= sp.MaxDepth {
			st.CapHit = fmt.Sprintf("depth bound %d (all sequences up to this length were explored)", sp.MaxDepth)
			break
		}
		var next [][]int
		for _, hist := range frontier {
			for ev := range sp.Events {
				inst, sig, d := sp.replay(hist, false)
				if sig != "" {
					st.Infra = "nondeterminism not owned: a previously clean prefix fails on replay: " + sig + " " + d
					st.Exhaustive = false
					st.WallMs = time.Since(t0).Milliseconds()
					return st
				}
				sig, d = applySafe(inst, ev, true)
				st.Transitions++
				st.Executions++
				k := ""
				if sig == "" {
					k = inst.Key()
				}
				inst.Close()
				if sig == "!other" {
					st.OtherObs++
					continue
				}
				if sig != "" {
					if !seenSig[sig] {
						seenSig[sig] = true
						// a violation is only believed if it reproduces
						ok := true
						full := append(append([]int{}, hist...), ev)
						for r := 0; r < 5; r++ {
							i2, s2, _ := sp.replay(full, true)
							i2.Close()
							if s2 != sig {
								ok = false
							}
						}
						if !ok {
							st.Infra = "violation did not reproduce on replay: " + sig + " | " + d + " | " + strings.Join(inst.Log(), " ; ")
							st.Exhaustive = false
							st.WallMs = time.Since(t0).Milliseconds()
							return st
						}
						ch := make([]uint8, len(full))
						for i, e := range full {
							ch[i] = uint8(e % 256)
						}
						li, _, _ := sp.replay(full, true)
						st.Violations = append(st.Violations, Violation{Scenario: sp.Name, Kind: "oracle", Signature: sig, Detail: d,
							History: li.Log(), Events: full})
						li.Close()
					}
					continue // model and implementation diverged: do not expand
				}
				if !seen[k] {
					seen[k] = true
					nh := make([]int, len(hist)+1)
					copy(nh, hist)
					nh[len(hist)] = ev
					next = append(next, nh)
					if len(sample) == 0 && len(nh) >= 3 {
						li, _, _ := sp.replay(nh, true)
						sample = li.Log()
						li.Close()
					}
				}
			}
			if len(seen) > maxStates {
				st.Exhaustive = false
				st.CapHit = fmt.Sprintf("state cap %d at depth %d", maxStates, depth+1)
				capped = true
				break
			}
			if !deadline.IsZero() && time.Now().After(deadline) {
				st.Exhaustive = false
				st.CapHit = fmt.Sprintf("deadline at depth %d (all sequences up to length %d were explored)", depth+1, depth)
				capped = true
				break
			}
		}
		frontier = next
		depth++
		if len(st.Violations) >= 8 {
			st.Exhaustive = false
			st.CapHit = "stopped after 8 distinct violations"
			break
		}
	}
	if sp.MaxDepth > 0 && st.CapHit != "" && !capped && len(st.Violations) < 8 {
		// a completed depth-bounded search is exhaustive for its bound
		st.BoundDone = -1
	}
	st.States = len(seen)
	st.MaxDepth = depth
	// outcomes = distinct canonical states (the count is what matters)
	for k := range seen {
		st.Outcomes[k] = 1
		if len(st.Outcomes) >= 3 {
			break
		}
	}
	st.OutcomeCount = len(seen)
	st.SampleHist = sample
	st.WallMs = time.Since(t0).Milliseconds()
	return st
}
