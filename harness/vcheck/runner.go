package main

import (
	"bufio"
	"encoding/json"
	"fmt"
	"os"
	"os/exec"
	"path/filepath"
	"runtime"
	"sort"
	"strconv"
	"strings"
	"sync"
	"time"

	"github.com/fufuok/cache/internal/vshim/sched"
)

// ---- command line context ----

type runCtx struct {
	Prop      string
	Tier      string
	Seed      int64
	Evidence  string
	ReplayDir string
	KnownFile string
	Workers   int
	Budget    time.Duration // wall-clock budget of the whole check (soft: caps exploration, never an oracle)
	Race      bool
	t0        time.Time
	HookCount int
}

// A Finding is one violation as reported to the user.
type Finding struct {
	Property  string      `json:"property"`
	Signature string      `json:"signature"` // stable identification of what fails (used by known_findings.json)
	Detail    string      `json:"detail"`
	Replay    interface{} `json:"replay"` // engine specific replay payload
}

type knownFile struct {
	Findings []struct {
		Property  string `json:"property"`
		Signature string `json:"signature"`
		What      string `json:"what"`
	} `json:"findings"`
	Fixed []string `json:"fixed"`
}

func loadKnown(path string) map[string]string {
	out := map[string]string{}
	b, err := os.ReadFile(path)
	if err != nil {
		return out
	}
	var kf knownFile
	if err := json.Unmarshal(b, &kf); err != nil {
		fmt.Fprintln(os.Stderr, "known findings file unreadable:", err)
		os.Exit(2)
	}
	for _, f := range kf.Findings {
		out[f.Property+"|"+f.Signature] = f.What
	}
	return out
}

// report prints VIOLATION / KNOWN-FINDING lines, writes replay files and
// returns the process exit code.
func (rc *runCtx) report(findings []Finding) (exit int, known int, viol int) {
	kn := loadKnown(rc.KnownFile)
	dir := filepath.Join(rc.ReplayDir, rc.Prop)
	os.MkdirAll(dir, 0o755)
	// stale replay files of earlier runs are removed
	if old, _ := filepath.Glob(filepath.Join(dir, rc.Tier+"-*.json")); old != nil {
		for _, f := range old {
			os.Remove(f)
		}
	}
	seenKnown := map[string]bool{}
	n := 0
	for _, f := range findings {
		if what, ok := kn[f.Property+"|"+f.Signature]; ok {
			if !seenKnown[f.Signature] {
				seenKnown[f.Signature] = true
				fmt.Printf("KNOWN-FINDING: property=%s %s [%s]\n", f.Property, what, f.Signature)
				known++
			}
			continue
		}
		n++
		path := filepath.Join(dir, fmt.Sprintf("%s-%d.json", rc.Tier, n))
		b, _ := json.MarshalIndent(f, "", " ")
		os.WriteFile(path, b, 0o644)
		fmt.Printf("VIOLATION property=%s replay=%s\n", f.Property, path)
		fmt.Printf("  signature: %s\n  %s\n", f.Signature, strings.ReplaceAll(firstN(f.Detail, 1500), "\n", "\n  "))
		viol++
	}
	if viol > 0 {
		return 1, known, viol
	}
	return 0, known, viol
}

func firstN(s string, n int) string {
	if len(s) > n {
		return s[:n] + "..."
	}
	return s
}

// ---- evidence ----

type Evidence struct {
	PropertyID  string                 `json:"property_id"`
	Tier        string                 `json:"tier"`
	Seed        int64                  `json:"seed"`
	Level       string                 `json:"level"`
	Coverage    map[string]interface{} `json:"coverage"`
	Assumptions []string               `json:"assumptions"`
	WallS       float64                `json:"wall_s"`
	Violations  int                    `json:"violations"`
}

func (rc *runCtx) writeEvidence(cov map[string]interface{}, assumptions []string, violations int) {
	ev := Evidence{PropertyID: rc.Prop, Tier: rc.Tier, Seed: rc.Seed, Level: "model_checking", Coverage: cov,
		Assumptions: assumptions, WallS: time.Since(rc.t0).Seconds(), Violations: violations}
	cov["hooks_substituted"] = rc.HookCount
	b, _ := json.MarshalIndent(ev, "", " ")
	if err := os.WriteFile(rc.Evidence, b, 0o644); err != nil {
		fmt.Fprintln(os.Stderr, "cannot write evidence:", err)
		os.Exit(2)
	}
}

// ---- E1 worker pool: scenarios are explored in sub-processes ----

// scenariosFor is the deterministic scenario list of a property/tier; parent
// and workers compute the same list.
var scenarioGens = map[string]func(tier string) []*Scenario{}

func workerMain(rc *runCtx) {
	gen := scenarioGens[rc.Prop]
	if gen == nil {
		fmt.Fprintln(os.Stderr, "no scenarios for", rc.Prop)
		os.Exit(2)
	}
	scs := gen(rc.Tier)
	in := bufio.NewScanner(os.Stdin)
	out := bufio.NewWriter(os.Stdout)
	for in.Scan() {
		f := strings.Fields(in.Text())
		if len(f) != 2 {
			continue
		}
		idx, _ := strconv.Atoi(f[0])
		dl, _ := strconv.ParseInt(f[1], 10, 64)
		maxStates, fb := 400_000, 2
		if rc.Tier == "thorough" {
			maxStates, fb = 6_000_000, 3
		}
		if sched.RaceBuild {
			// under the race detector an execution costs ~10x more; a race is a property of the
			// happens-before order of an execution, so path coverage matters more than the number of
			// orderings: smaller unbounded cap, then all schedules with <= 1 (thorough: 2) preemptions
			maxStates, fb = 40_000, 1
			if rc.Tier == "thorough" {
				maxStates, fb = 400_000, 2
			}
		}
		var st *ExploreStats
		func() {
			defer func() {
				// a scenario that cannot be set up on this tree (its table shape cannot be produced, ...) is an
				// infrastructure error of that scenario only: the worker goes on with the next one
				if r := recover(); r != nil {
					msg := fmt.Sprint(r)
					if !strings.HasPrefix(msg, "INFRASTRUCTURE:") || sched.Active() {
						panic(r)
					}
					st = &ExploreStats{Scenario: scs[idx].Name, Infra: strings.TrimPrefix(msg, "INFRASTRUCTURE: "), BoundDone: -1, CapHit: "not explored"}
				}
			}()
			if scs[idx].Seq != nil {
				st = ExploreSeq(scs[idx].Seq, time.UnixMilli(dl))
			} else {
				st = ExploreAuto(scs[idx], ExploreOpts{Deadline: time.UnixMilli(dl), MaxStates: maxStates, FallbackBound: fb})
			}
		}()
		b, _ := json.Marshal(st)
		fmt.Fprintf(out, "%d %s\n", idx, b)
		out.Flush()
	}
}

type e1Summary struct {
	Stats      []*ExploreStats
	Infra      []string
	States     int
	Trans      int
	Execs      int
	Complete   int
	Outcomes   int
	Vacuous    []string
	CapsHit    []string
	Exhaustive bool
	Bounded    []string
	Unbounded  int
	Findings   []Finding
}

// runE1 explores all scenarios of the property in parallel worker processes.
func runE1(rc *runCtx, scs []*Scenario) *e1Summary {
	sum := &e1Summary{Stats: make([]*ExploreStats, len(scs)), Exhaustive: true}
	deadline := rc.t0.Add(rc.Budget)
	self, _ := os.Executable()
	raceDir := ""
	if sched.RaceBuild {
		raceDir, _ = os.MkdirTemp("", "verif-race")
		defer os.RemoveAll(raceDir)
	}
	nw := rc.Workers
	if nw > len(scs) {
		nw = len(scs)
	}
	var mu sync.Mutex
	next := 0
	var wg sync.WaitGroup
	for w := 0; w < nw; w++ {
		wg.Add(1)
		go func() {
			defer wg.Done()
			args := []string{"-prop", rc.Prop, "-tier", rc.Tier, "-worker"}
			cmd := exec.Command(self, args...)
			cmd.Env = append(os.Environ(), "GOMAXPROCS=2")
			if sched.RaceBuild {
				cmd.Env = append(cmd.Env, "GORACE=halt_on_error=0 log_path="+raceDir+"/race", "VERIF_RACE_LOG="+raceDir+"/race")
			}
			cmd.Stderr = os.Stderr
			stdin, _ := cmd.StdinPipe()
			stdout, _ := cmd.StdoutPipe()
			if err := cmd.Start(); err != nil {
				mu.Lock()
				sum.Infra = append(sum.Infra, "cannot start worker: "+err.Error())
				mu.Unlock()
				return
			}
			rd := bufio.NewReaderSize(stdout, 1<<20)
			for {
				mu.Lock()
				idx := next
				next++
				mu.Unlock()
				if idx >= len(scs) {
					break
				}
				fmt.Fprintf(stdin, "%d %d\n", idx, deadline.UnixMilli())
				line, err := rd.ReadString('\n')
				if err != nil {
					mu.Lock()
					sum.Infra = append(sum.Infra, fmt.Sprintf("worker died on scenario %q: %v", scs[idx].Name, err))
					mu.Unlock()
					// restart is not attempted: the scenario is reported as infrastructure failure
					stdin.Close()
					cmd.Wait()
					return
				}
				sp := strings.IndexByte(line, ' ')
				var st ExploreStats
				if err := json.Unmarshal([]byte(line[sp+1:]), &st); err != nil {
					mu.Lock()
					sum.Infra = append(sum.Infra, "bad worker output: "+err.Error())
					mu.Unlock()
					continue
				}
				mu.Lock()
				sum.Stats[idx] = &st
				mu.Unlock()
			}
			stdin.Close()
			cmd.Wait()
		}()
	}
	wg.Wait()
	for i, st := range sum.Stats {
		if st == nil {
			sum.Infra = append(sum.Infra, "scenario not run: "+scs[i].Name)
			continue
		}
		sum.States += st.States
		sum.Trans += st.Transitions
		sum.Execs += st.Executions
		sum.Complete += st.Complete
		if st.OutcomeCount > 0 {
			sum.Outcomes += st.OutcomeCount
		} else {
			sum.Outcomes += len(st.Outcomes)
		}
		if st.Infra != "" {
			sum.Infra = append(sum.Infra, st.Scenario+": "+st.Infra)
		}
		if !st.Exhaustive {
			sum.Exhaustive = false
			sum.CapsHit = append(sum.CapsHit, st.Scenario+": "+st.CapHit)
		}
		if st.BoundDone >= 0 {
			sum.Bounded = append(sum.Bounded, fmt.Sprintf("%s: all schedules with <= %d preemptions", st.Scenario, st.BoundDone))
		} else if st.Exhaustive {
			sum.Unbounded++
		}
		if len(st.Outcomes) <= 1 && st.OutcomeCount <= 1 && len(st.Violations) == 0 && scs[i].ExpectOutcomes > 1 {
			sum.Vacuous = append(sum.Vacuous, st.Scenario)
		}
		for _, v := range st.Violations {
			if scs[i].Seq != nil {
				sum.Findings = append(sum.Findings, Finding{Property: rc.Prop, Signature: v.Signature, Detail: fmt.Sprintf("sequence search: %s\n%s\nevent sequence:\n  %s", st.Scenario, v.Detail, strings.Join(v.History, "\n  ")),
					Replay: map[string]interface{}{"engine": "E2", "property": rc.Prop, "tier": rc.Tier, "scenario": st.Scenario, "events": v.Events}})
				continue
			}
			sum.Findings = append(sum.Findings, Finding{Property: rc.Prop, Signature: v.Signature, Detail: fmt.Sprintf("scenario: %s\n%s: %s\nhistory:\n  %s\nschedule:\n  %s", st.Scenario, v.Kind, v.Detail, strings.Join(v.History, "\n  "), strings.Join(v.Schedule, "\n  ")),
				Replay: map[string]interface{}{"engine": "E1", "property": rc.Prop, "tier": rc.Tier, "scenario": st.Scenario, "choices": v.Choices, "kind": v.Kind}})
		}
	}
	return sum
}

func (sum *e1Summary) coverage(scs []*Scenario) map[string]interface{} {
	var samples []interface{}
	// a few scenarios written out: first, a middle one, the largest
	pick := map[int]bool{0: true, len(sum.Stats) / 2: true}
	big, bigN := -1, -1
	for i, st := range sum.Stats {
		if st != nil && st.States > bigN {
			big, bigN = i, st.States
		}
	}
	pick[big] = true
	idxs := []int{}
	for i := range pick {
		if i >= 0 && i < len(sum.Stats) && sum.Stats[i] != nil {
			idxs = append(idxs, i)
		}
	}
	sort.Ints(idxs)
	for _, i := range idxs {
		st := sum.Stats[i]
		samples = append(samples, map[string]interface{}{"scenario": st.Scenario, "states": st.States, "executions": st.Executions,
			"distinct_outcomes": len(st.Outcomes), "first_schedule": st.SampleSched, "first_history": st.SampleHist, "thread_steps": st.ThreadSteps})
	}
	maxDepth, maxPre := 0, 0
	det := 0
	for _, st := range sum.Stats {
		if st == nil {
			continue
		}
		if st.MaxDepth > maxDepth {
			maxDepth = st.MaxDepth
		}
		if st.MaxPreempt > maxPre {
			maxPre = st.MaxPreempt
		}
		if st.Deterministic {
			det++
		}
	}
	return map[string]interface{}{
		"states": sum.States, "transitions": sum.Trans, "traces_validated_against_impl": sum.Execs,
		"samples": samples, "exhaustive": sum.Exhaustive, "scenarios": len(scs), "complete_executions": sum.Complete,
		"distinct_outcomes": sum.Outcomes, "vacuous_scenarios": sum.Vacuous, "caps_hit": sum.CapsHit,
		"scenarios_explored_without_preemption_bound": sum.Unbounded, "scenarios_explored_with_preemption_bound": len(sum.Bounded), "preemption_bounded_scenarios": firstStrings(sum.Bounded, 40),
		"max_depth": maxDepth, "max_preemptions_in_one_execution": maxPre, "scenarios_with_determinism_replay": det,
		"rule": "every scenario = container + sequential prologue + 2-3 threads of 1-2 API calls; all schedules at the granularity of atomic/lock operations are enumerated depth-first with happens-before state caching and sleep sets (no preemption bound unless stated); a state is a Mazurkiewicz trace prefix; every execution runs the real code",
	}
}

func numCPU() int {
	n := runtime.NumCPU()
	if n > 16 {
		n = 16
	}
	if n < 1 {
		n = 1
	}
	return n
}

func firstStrings(s []string, n int) []string {
	if len(s) > n {
		return append(append([]string{}, s[:n]...), fmt.Sprintf("... and %d more", len(s)-n))
	}
	return s
}
