package main

import (
	"fmt"
	"sort"
	"strings"
	"time"
)

// selftest cross-checks the reductions of the explorer: for a sample of scenarios the set of visited
// states and the set of distinct outcomes must be identical with and without sleep sets.
func init() {
	checks["selftest"] = func(rc *runCtx) int {
		bad := 0
		n := 0
		for _, prop := range []string{"C03", "C04", "C02", "C05", "C16"} {
			scs := scenarioGens[prop]("quick")
			for i := 0; i < len(scs); i += 23 {
				sc := scs[i]
				if sc.Seq != nil || sc.PreemptBound > 0 {
					continue
				}
				opts := ExploreOpts{Deadline: time.Now().Add(60 * time.Second), MaxStates: 150_000}
				noSleepSets = false
				a := Explore(sc, opts)
				noSleepSets = true
				b := Explore(sc, opts)
				noSleepSets = false
				if !a.Exhaustive || !b.Exhaustive {
					continue
				}
				n++
				ka, kb := sortedKeys(a.Outcomes), sortedKeys(b.Outcomes)
				if a.States != b.States || strings.Join(ka, "|") != strings.Join(kb, "|") {
					bad++
					fmt.Printf("MISMATCH %s: states %d vs %d, outcomes %d vs %d\n", sc.Name, a.States, b.States, len(ka), len(kb))
				}
			}
		}
		fmt.Printf("selftest: %d scenarios compared with and without sleep sets, %d mismatches\n", n, bad)
		_ = sort.Strings
		if bad > 0 {
			return 2
		}
		return 0
	}
}
