package main

import (
	"fmt"
	"runtime"
	"sort"
	"strings"

	"github.com/fufuok/cache/internal/vshim/sched"
	"github.com/fufuok/cache/internal/xsync"
)

type KeyRel int

const (
	RelSS     KeyRel = iota // same bucket, same tag (forces key comparison)
	RelSD                   // same bucket, different tags
	RelDD                   // different buckets
	RelSplit                // same bucket in a 32-bucket table, different buckets after a grow
	RelLate                 // different buckets, the other keys in the last buckets a resize copies
	RelZeroSD               // same bucket, different tags, key 0 has the all-zero tag (top hash 0 / h2 0)
	RelZeroDD               // different buckets, every alphabet key has the all-zero tag
	RelMaxSD                // same bucket, tags at the top of the tag range (all ones, all ones - 1, ...)
)

var relNames = [...]string{"sameBucketSameTag", "sameBucketDiffTag", "diffBuckets", "splitOnGrow", "lateBuckets", "sameBucketZeroTag", "diffBucketsZeroTag", "sameBucketMaxTags"}

type TableCond int

const (
	TPlain TableCond = iota
	TChain2
	TGrowArmed
	TShrinkArmed
	TFullChain // the target chain is exactly full but the table is below the load factor: the next insert appends a bucket
	TLongChain // 209 bystander keys collide in the target chain (42-70 buckets long)
)

var tableNames = [...]string{"plain", "chain2", "growArmed", "shrinkArmed", "fullChain", "longChain"}

const (
	fillTarget = 100   // key indices 100.. : fillers in the target chain
	fillSpread = 200   // key indices 200.. : fillers spread over the other buckets
	fillLong   = 10000 // key indices 10000.. : more fillers in the target chain (very long chains)
)

func layoutFor(rel KeyRel) Layout {
	return Layout{
		Bucket: func(k int) uint64 {
			switch {
			case k >= fillLong:
				return 0
			case k >= fillSpread:
				j := uint64(k - fillSpread)
				return 1 + j%31 + ((j/31)%2)<<5
			case k >= fillTarget:
				return 0
			}
			switch rel {
			case RelDD, RelZeroDD:
				return uint64(k)
			case RelSplit:
				return uint64(k%2) << 5
			case RelLate:
				if k == 0 {
					return 0
				}
				return uint64(32 - k)
			}
			return 0
		},
		Tag: func(k int) uint64 {
			switch {
			case k >= fillLong:
				return uint64(k-fillLong)%90 + 30
			case k >= fillSpread:
				return uint64(k-fillSpread)%100 + 20
			case k >= fillTarget:
				return uint64(k-fillTarget)%10 + 10
			}
			switch rel {
			case RelSS:
				return 5
			case RelZeroDD:
				return 0
			case RelZeroSD:
				if k == 0 {
					return 0
				}
			case RelMaxSD:
				return 0xfffff - uint64(k)
			}
			return 5 + uint64(k)
		},
	}
}

// MapScen describes one generated scenario for Map/MapOf.
type MapScen struct {
	Prop      string
	C         ContainerKind
	Rel       KeyRel
	NKeys     int
	Init      []int // per key: 0 absent, 1 present (value k+1)
	FillFirst bool  // chain fillers are inserted before the alphabet keys (keys end up in the overflow bucket)
	Chain     int   // grow-armed / full-chain tables: number of full buckets in the target chain (0 = 1)
	Table     TableCond
	// Cycled: before the scenario's own prologue the map grows and shrinks back to its minimum length
	// (the scenario starts from a non-initial state: used table, used counter stripes, a resize history)
	Cycled bool
	// NilValue: the keys initially present hold the nil interface value (Map only; the reference model has no
	// notion of it, so only the monitors of such a scenario are meaningful)
	NilValue bool
	// GrowOnly: the map is built WithGrowOnly() (never shrinks; Clear must still empty it)
	GrowOnly  bool
	Threads   [][]MIn
	NoBlock   []bool
	MaxSteps  []int
	Bound     int // preemption bound (0 = unbounded)
	Classes   int
	CheckFn   bool
	Expect    int // expected minimum number of distinct outcomes
	MaxStates int
	// VisitorOp: if set, the Range visitor performs this op on first visit (re-entrancy)
	VisitorOp *MIn
	// expectations checked for vacuity
	ExpectGrow, ExpectShrink bool
}

func (ms *MapScen) name() string {
	var sb strings.Builder
	fmt.Fprintf(&sb, "%s/%s/%s/%s/init=%v", ms.Prop, ms.C, relNames[ms.Rel], tableNames[ms.Table], ms.Init)
	if ms.Chain > 1 {
		fmt.Fprintf(&sb, "/chain=%d", ms.Chain)
	}
	if ms.FillFirst {
		sb.WriteString("/overflow")
	}
	if ms.GrowOnly {
		sb.WriteString("/grow-only")
	}
	if ms.NilValue {
		sb.WriteString("/nil-values")
	}
	if ms.Cycled {
		sb.WriteString("/after-grow-and-shrink")
	}
	for t, ops := range ms.Threads {
		fmt.Fprintf(&sb, " T%d:", t)
		for i, o := range ops {
			if i > 0 {
				sb.WriteString(";")
			}
			sb.WriteString(o.String())
		}
	}
	if ms.VisitorOp != nil {
		fmt.Fprintf(&sb, " visitor:%v", *ms.VisitorOp)
	}
	return sb.String()
}

// build the container and run the sequential prologue (pass-through mode)
// setup builds the container and runs the sequential prologue. nfill is the number of bystander keys
// left in the container; problem is non-empty if the prologue itself already misbehaved.
func (ms *MapScen) setup() (m MapLike, st MState, nfill int, problem string, infra bool) {
	m, st, infra, problem = ms.setup0()
	if problem != "" {
		return
	}
	present := 0
	for k := 0; k < ms.NKeys; k++ {
		if st[k] != 0 {
			present++
		}
	}
	s := m.Stats()
	nfill = s.Size - present
	if m.Size() != s.Size || s.Counter != s.Size {
		problem = fmt.Sprintf("sequential prologue: Size=%d, counter=%d, physical entries=%d", m.Size(), s.Counter, s.Size)
	}
	return
}

func (ms *MapScen) setup0() (m MapLike, st MState, infra bool, problem string) {
	defer func() {
		if r := recover(); r != nil {
			// the intended table shape could not be produced: a counter that disagrees with the physical
			// contents at some point of the sequential prologue is a violation, anything else is not a verdict
			if msg := fmt.Sprint(r); strings.HasPrefix(msg, "COUNT:") {
				problem = "sequential prologue: " + msg
			} else if _, isRT := r.(runtime.Error); isRT {
				// the harness panics with strings; a runtime error comes from the code under test
				problem = "sequential prologue: the code under test panics: " + msg
			} else {
				problem, infra = fmt.Sprintf("scenario cannot be armed: %v", r), true
			}
		}
	}()
	st = ms.setupRaw(&m)
	return
}

func countCheck(m MapLike, where string) {
	if s := m.Stats(); m.Size() != s.Size || s.Counter != s.Size {
		panic(fmt.Sprintf("COUNT: %s: Size=%d, counter=%d, physical entries=%d", where, m.Size(), s.Counter, s.Size))
	}
}

func (ms *MapScen) setupRaw(out *MapLike) MState {
	l := layoutFor(ms.Rel)
	var opts []func(*xsync.MapConfig)
	if ms.GrowOnly {
		opts = append(opts, xsync.WithGrowOnly())
	}
	m := newContainer(ms.C, l, opts...)
	*out = m
	slots := ms.C.slots()
	var st MState
	putKeys := func() {
		for k := 0; k < ms.NKeys; k++ {
			if ms.Init[k] != 0 {
				if ms.NilValue {
					m.Store(k, 0) // boxed as the nil interface
					continue
				}
				m.Store(k, k+1)
				st[k] = int32(k + 1)
			}
		}
	}
	inTarget := 0 // alphabet keys initially present in bucket 0
	for k := 0; k < ms.NKeys; k++ {
		if ms.Init[k] != 0 && l.Bucket(k)&31 == 0 {
			inTarget++
		}
	}
	growThreshold := 0
	if ms.Cycled || ms.Table == TGrowArmed || ms.Table == TShrinkArmed {
		growThreshold = growPolicy(ms.C)
	}
	baseG, baseS := int64(0), int64(0)
	if ms.Cycled {
		for j := 0; j < slots; j++ {
			m.Store(fillTarget+60+j, 1)
		}
		n := 0
		for j := 0; m.Size() <= growThreshold; j++ {
			m.Store(fillSpread+600+j, 1)
			n++
		}
		m.Store(fillTarget+60+slots, 1) // full chain + above threshold: grows
		countCheck(m, "after a grow")
		for j := 0; j <= slots; j++ {
			m.Delete(fillTarget + 60 + j)
		}
		for j := 0; j < n; j++ {
			m.Delete(fillSpread + 600 + j)
		}
		countCheck(m, "after a grow and a shrink back to the minimum length")
		s := m.Stats()
		if ms.GrowOnly {
			if s.TotalGrowths < 1 || s.TotalShrinks != 0 || s.RootBuckets != 64 || s.Size != 0 {
				panic(fmt.Sprintf("prologue: grow-only map did not stay grown and empty: %+v", s))
			}
		} else if s.TotalGrowths < 1 || s.TotalShrinks < 1 || s.RootBuckets != 32 || s.Size != 0 {
			panic(fmt.Sprintf("prologue: grow/shrink cycle did not return to an empty minimum table: %+v", s))
		}
		baseG, baseS = s.TotalGrowths, s.TotalShrinks
	}
	switch ms.Table {
	case TPlain:
		putKeys()
	case TChain2:
		// a chain of two buckets (ms.Chain = 3, 4: of that many)
		nf := slots
		if ms.Chain > 2 {
			nf = slots * (ms.Chain - 1)
		}
		if ms.FillFirst {
			for j := 0; j < nf; j++ {
				m.Store(fillTarget+j, 1000+j)
			}
			putKeys()
		} else {
			putKeys()
			for j := 0; j < nf; j++ {
				m.Store(fillTarget+j, 1000+j)
			}
		}
	case TLongChain:
		for j := 0; j < 50; j++ {
			m.Store(fillTarget+j, 1000+j)
		}
		putKeys()
		for j := 50; j < 99; j++ {
			m.Store(fillTarget+j, 1000+j)
		}
		// ... and 110 more: 209 bystanders in one chain (42-70 buckets)
		for j := 0; j < 110; j++ {
			m.Store(fillLong+j, 3000+j)
		}
	case TFullChain:
		putKeys()
		nf := (slots - inTarget%slots) % slots
		if inTarget == 0 {
			nf = slots
		}
		for j := 0; j < nf; j++ {
			m.Store(fillTarget+j, 1000+j)
		}
	case TGrowArmed:
		nfill := (slots - inTarget%slots) % slots
		if inTarget == 0 {
			nfill = slots
		}
		if ms.Chain > 1 {
			nfill += slots * (ms.Chain - 1)
		}
		if ms.FillFirst {
			// the alphabet keys end up in the last bucket of the chain
			for j := 0; j < nfill; j++ {
				m.Store(fillTarget+j, 1000+j)
			}
			putKeys()
		} else {
			putKeys()
			for j := 0; j < nfill; j++ {
				m.Store(fillTarget+j, 1000+j)
			}
		}
		total := m.Size()
		for j := 0; total <= growThreshold; j++ {
			m.Store(fillSpread+j, 2000+j)
			total++
		}
		if g := m.Stats().TotalGrowths; g != baseG {
			panic("prologue grew the table")
		}
	case TShrinkArmed:
		// grow to 64 buckets first
		for j := 0; j < slots; j++ {
			m.Store(fillTarget+j, 1000+j)
		}
		n := 0
		for j := 0; m.Size() <= growThreshold; j++ {
			m.Store(fillSpread+j, 2000+j)
			n++
		}
		m.Store(fillTarget+slots, 1999) // full chain + above threshold: grows
		countCheck(m, "after the first grow")
		if g := m.Stats().TotalGrowths; g != baseG+1 {
			panic(fmt.Sprintf("prologue: expected exactly one growth, got %d", g))
		}
		putKeys()
		// anchors keep the size just above the shrink threshold
		shrinkThreshold := shrinkPolicy(ms.C)
		present := 0
		for k := 0; k < ms.NKeys; k++ {
			if ms.Init[k] != 0 {
				present++
			}
		}
		anchors := shrinkThreshold + 1 - present
		if anchors < 0 {
			anchors = 0
		}
		for j := 0; j <= slots; j++ {
			m.Delete(fillTarget + j)
		}
		// the anchors that stay are fillers living in the upper half of the 64-bucket table: the shrink moves them
		for j := n - 1; j >= 0; j-- {
			if j >= 31 && j < 31+anchors {
				continue
			}
			m.Delete(fillSpread + j)
		}
		countCheck(m, "after deleting down to the shrink threshold")
		if s := m.Stats(); s.TotalShrinks != baseS || s.RootBuckets != 64 {
			panic(fmt.Sprintf("prologue: shrink-armed table not as intended: %+v", s))
		}
	}
	return st
}

type rangeOut struct {
	Pairs   [][2]int
	Fillers int  // bystander keys visited
	FDup    bool // a bystander key was visited twice or with a wrong value
}

func (r rangeOut) String() string {
	if r.FDup {
		return fmt.Sprint(r.Pairs, " +", r.Fillers, " bystanders (DUPLICATE/WRONG)")
	}
	return fmt.Sprint(r.Pairs, " +", r.Fillers, " bystanders")
}

func fillerValue(k int) int {
	if k >= fillLong {
		return 3000 + k - fillLong
	}
	if k >= fillSpread {
		return 2000 + k - fillSpread
	}
	return 1000 + k - fillTarget
}

// Scenario converts the description into an explorable scenario.
func (ms *MapScen) Scenario() *Scenario {
	lc := newLinChecker(makeMapModel(ms.CheckFn))
	name := ms.name()
	sc := &Scenario{Name: name, Prop: ms.Prop, NoBlock: ms.NoBlock, MaxSteps: ms.MaxSteps, PreemptBound: ms.Bound, MaxStates: ms.MaxStates,
		Classes: ms.Classes, ExpectOutcomes: ms.Expect}
	sc.New = func() *Instance {
		m, st0, nfill, problem, infra := ms.setup()
		if problem != "" {
			cls := OCount
			if infra {
				cls = 0
			}
			return &Instance{Bodies: []sched.Body{func() {}}, Finish: func(*sched.Result) (string, []OViol) {
				if infra {
					panic("INFRASTRUCTURE: " + problem + " @ " + name)
				}
				return "prologue", []OViol{{cls, problem}}
			}}
		}
		hist := make([][]HOp, len(ms.Threads))
		inst := &Instance{}
		for t := range ms.Threads {
			t := t
			ops := ms.Threads[t]
			inst.Bodies = append(inst.Bodies, func() {
				for i, in := range ops {
					if in.V == 0 {
						in.V = 100*(t+1) + i + 1
					}
					call := int64(sched.Invoke())
					var nested []HOp
					out := execMapOp(m, in, ms.VisitorOp, t, &nested)
					_ = nfill
					ret := int64(sched.Return())
					if len(nested) > 0 {
						// a traversal that mutates from its visitor is recorded as the
						// pieces before/after each nested call (each piece is a traversal of its own)
						hist[t] = append(hist[t], nested...)
					} else {
						hist[t] = append(hist[t], HOp{Thread: t, In: in, Out: out, Call: call, Ret: ret})
					}
				}
			})
		}
		var all []HOp
		inst.Describe = func() []string {
			var s []string
			for _, o := range all {
				s = append(s, o.String())
			}
			return s
		}
		inst.Finish = func(res *sched.Result) (string, []OViol) {
			var viols []OViol
			all = all[:0]
			for t := range hist {
				all = append(all, hist[t]...)
			}
			ts := int64(res.Steps) + 10
			// quiescent epilogue under the scheduler (single thread): a leaked lock or a
			// resize flag left set shows up as a deadlock instead of hanging the harness.
			var epi []HOp
			var size, visits, fillersSeen int
			var fillerBad bool
			var rangePairs [][2]int
			var stats = struct {
				G, S                 int64
				Phys, Counter, Roots int
			}{}
			er := sched.Run([]sched.Body{func() {
				for k := 0; k < ms.NKeys; k++ {
					v, ok := m.Load(k)
					epi = append(epi, HOp{Thread: 9, In: MIn{Op: MLoad, K: k}, Out: MOut{V: v, Ok: ok}, Call: ts, Ret: ts + 1})
					ts += 2
				}
				size = m.Size()
				fseen := map[int]bool{}
				m.Range(func(k, v int) bool {
					visits++
					if k < fillTarget {
						rangePairs = append(rangePairs, [2]int{k, v})
					} else {
						if fseen[k] || v != fillerValue(k) {
							fillerBad = true
						}
						fseen[k] = true
					}
					return true
				})
				fillersSeen = len(fseen)
				s := m.Stats()
				stats.G, stats.S, stats.Phys, stats.Counter, stats.Roots = s.TotalGrowths, s.TotalShrinks, s.Size, s.Counter, s.RootBuckets
				// write probe: every scenario key's bucket can still be locked and released
				for k := 0; k < ms.NKeys; k++ {
					m.LoadOrStore(k, 9999)
				}
				for k := 0; k < ms.NKeys; k++ {
					m.Delete(k)
				}
				if m.Size() != size-len(rangePairs) {
					size = -1000000 - m.Size()
				}
			}}, sched.Config{Horizon: 200000})
			if er.Outcome != sched.OComplete {
				return "epilogue:" + er.Outcome.String(), []OViol{{OTerm, "quiescent epilogue did not terminate (" + er.Outcome.String() + "): " + er.Detail}}
			}
			all = append(all, epi...)
			// outcome digest
			var sb strings.Builder
			for _, o := range all {
				fmt.Fprintf(&sb, "%v->%v;", o.In, o.Out)
			}
			fmt.Fprintf(&sb, "size=%d grow=%d shrink=%d", size, stats.G, stats.S)
			outcome := sb.String()
			// --- oracles ---
			// (1) expand traversals, check at-most-once and genuineness
			var lin []HOp
			for _, o := range all {
				in := o.In.(MIn)
				if in.Op == MRangeMut {
					seen := map[int]bool{}
					for _, p := range o.Out.(rangeOut).Pairs {
						if seen[p[0]] {
							viols = append(viols, OViol{ORange, fmt.Sprintf("Range with a mutating visitor visited key k%d twice: %v", p[0], o.Out)})
						}
						seen[p[0]] = true
					}
					continue
				}
				if in.Op != MRange {
					if in.Op == MSize {
						continue // mid-flight Size is unconstrained (C08 speaks of quiescent points)
					}
					lin = append(lin, o)
					continue
				}
				ro := o.Out.(rangeOut)
				seen := map[int]int{}
				for _, p := range ro.Pairs {
					if _, dup := seen[p[0]]; dup {
						viols = append(viols, OViol{ORange, fmt.Sprintf("Range visited key k%d twice: %v", p[0], ro.Pairs)})
					}
					seen[p[0]] = p[1]
				}
				for k := 0; k < ms.NKeys; k++ {
					v, ok := seen[k]
					lin = append(lin, HOp{Thread: o.Thread, In: MIn{Op: MRangeVisit, K: k}, Out: MOut{V: v, Ok: ok}, Call: o.Call, Ret: o.Ret})
				}
			}
			// the initial contents are part of the history: a sequential prefix of stores
			var pre []HOp
			for k := 0; k < ms.NKeys; k++ {
				if st0[k] != 0 {
					pre = append(pre, HOp{Thread: 8, In: MIn{Op: MStore, K: k, V: int(st0[k])}, Out: MOut{}, Call: int64(-100 + 2*k), Ret: int64(-99 + 2*k)})
				}
			}
			if !ms.CheckFn {
				// user-function observations belong to C05 only
				for i := range lin {
					if o, ok := lin[i].Out.(MOut); ok {
						o.FnCalls, o.FnOld, o.FnLd = 0, 0, false
						lin[i].Out = o
					}
				}
			}
			if !lc.Check(append(pre, lin...)) {
				viols = append(viols, OViol{OLin, "history is not linearizable w.r.t. map semantics"})
			}
			// bystander keys (never touched by any thread) must all still be there, once, with their values
			hasClear := false
			for _, o := range all {
				if in, ok := o.In.(MIn); ok && in.Op == MClear {
					hasClear = true
				}
			}
			if !hasClear && (fillersSeen != nfill || fillerBad) {
				viols = append(viols, OViol{OLin | ORange, fmt.Sprintf("bystander keys lost, duplicated or changed: %d of %d present (bad=%v)", fillersSeen, nfill, fillerBad)})
			}
			for _, o := range all {
				if ro, ok := o.Out.(rangeOut); ok && !hasClear && (ro.Fillers != nfill || ro.FDup) {
					viols = append(viols, OViol{ORange, fmt.Sprintf("a traversal visited %d of %d untouched keys (duplicate/wrong=%v)", ro.Fillers, nfill, ro.FDup)})
				}
			}
			// (2) quiescent agreement of Size, Range and the physical entry count
			if size != visits || size != stats.Phys || size != stats.Counter {
				viols = append(viols, OViol{OCount, fmt.Sprintf("quiescent Size=%d, Range visits=%d, physical entries=%d, counter=%d", size, visits, stats.Phys, stats.Counter)})
			}
			// Range at quiescence shows exactly what Load shows
			sort.Slice(rangePairs, func(i, j int) bool { return rangePairs[i][0] < rangePairs[j][0] })
			var loaded [][2]int
			for _, e := range epi {
				if out := e.Out.(MOut); out.Ok {
					loaded = append(loaded, [2]int{e.In.(MIn).K, out.V})
				}
			}
			if fmt.Sprint(loaded) != fmt.Sprint(rangePairs) {
				viols = append(viols, OViol{ORange, fmt.Sprintf("quiescent Range %v differs from Loads %v", rangePairs, loaded)})
			}
			return outcome, viols
		}
		return inst
	}
	return sc
}

func execMapOp(m MapLike, in MIn, visitorOp *MIn, t int, nested *[]HOp) interface{} {
	switch in.Op {
	case MLoad:
		v, ok := m.Load(in.K)
		return MOut{V: v, Ok: ok}
	case MStore:
		m.Store(in.K, in.V)
		return MOut{}
	case MLoadOrStore:
		v, ok := m.LoadOrStore(in.K, in.V)
		return MOut{V: v, Ok: ok}
	case MLoadAndStore:
		v, ok := m.LoadAndStore(in.K, in.V)
		return MOut{V: v, Ok: ok}
	case MLoadOrCompute:
		calls := 0
		v, ok := m.LoadOrCompute(in.K, func() int {
			calls++
			sched.Park()
			return in.V
		})
		return MOut{V: v, Ok: ok, FnCalls: calls}
	case MCompute:
		out := MOut{}
		v, ok := m.Compute(in.K, func(old int, loaded bool) (int, bool) {
			out.FnCalls++
			out.FnOld, out.FnLd = old, loaded
			sched.Park()
			return applyFn(in.Fn, in.V, old, loaded)
		})
		out.V, out.Ok = v, ok
		return out
	case MLoadAndDelete:
		v, ok := m.LoadAndDelete(in.K)
		return MOut{V: v, Ok: ok}
	case MDelete:
		m.Delete(in.K)
		return MOut{}
	case MClear:
		m.Clear()
		return MOut{}
	case MSize:
		return MOut{V: m.Size()}
	case MRange:
		var ro rangeOut
		did := false
		var fs map[int]bool
		m.Range(func(k, v int) bool {
			if k < fillTarget {
				ro.Pairs = append(ro.Pairs, [2]int{k, v})
			} else {
				if fs == nil {
					fs = map[int]bool{}
				}
				if fs[k] || v != fillerValue(k) {
					ro.FDup = true
				}
				fs[k] = true
				ro.Fillers = len(fs)
			}
			if visitorOp != nil && !did && k < fillTarget {
				did = true
				vo := *visitorOp
				if vo.K < 0 {
					vo.K = k // "the key being visited"
				}
				if vo.V == 0 {
					vo.V = 900 + k
				}
				c := int64(sched.Invoke())
				out := execMapOp(m, vo, nil, t, nil)
				r := int64(sched.Return())
				*nested = append(*nested, HOp{Thread: t, In: vo, Out: out, Call: c, Ret: r})
			}
			return true
		})
		if nested != nil && len(*nested) > 0 {
			// the traversal as a whole: only the at-most-once / genuineness part is checked
			*nested = append(*nested, HOp{Thread: t, In: MIn{Op: MRangeMut}, Out: ro, Call: (*nested)[0].Call, Ret: (*nested)[0].Call})
		}
		return ro
	}
	panic("execMapOp: bad op")
}
