package main

import (
	"fmt"
	"runtime"
	"sort"
	"strings"
	"time"

	"github.com/fufuok/cache/internal/vshim/sched"
	vtime "github.com/fufuok/cache/internal/vshim/time"
)

// initial state of a key in a cache scenario
const (
	IAbsent  = 0
	ILive    = 1 // stored forever
	ILiveTTL = 2 // stored with a ttl that ends far in the future
	IExpired = 3 // stored with a short ttl, clock advanced past it, not cleaned
)

var initNames = [...]string{"absent", "live", "liveTTL", "expired"}

const farTTL = 1000 * time.Nanosecond

type CacheScen struct {
	Prop     string
	Twin     int
	Rel      KeyRel
	NKeys    int
	Init     []int
	Table    TableCond // TPlain or TGrowArmed
	Threads  [][]CIn
	Callback bool
	// CBReenter: the evicted callback calls back into the cache (Get, Set of another key, Delete)
	CBReenter bool
	Payload   bool          // values are *payload (race check)
	Def       time.Duration // default expiration given at construction (0 = none)
	// Warm: the cache has already grown, shrunk back and run a cleanup pass that evicted two entries
	// (start from a non-initial state)
	Warm bool
	// VisitorOp: the Range visitor performs this call on its first visit (re-entrancy; only the
	// termination oracle is meaningful then: the call is not part of the recorded history)
	VisitorOp *CIn
	Classes   int
	CheckFn   bool
	NoBlock   []bool
	MaxSteps  []int
	Bound     int
	Expect    int
}

func (cs *CacheScen) name() string {
	var sb strings.Builder
	ini := make([]string, len(cs.Init))
	for i, x := range cs.Init {
		ini[i] = initNames[x]
	}
	fmt.Fprintf(&sb, "%s/%s/%s/%s/init=%v/cb=%v", cs.Prop, twinNames[cs.Twin], relNames[cs.Rel], tableNames[cs.Table], ini, cs.Callback)
	if cs.Def > 0 {
		fmt.Fprintf(&sb, "/default=%v", cs.Def)
	}
	if cs.CBReenter {
		sb.WriteString("/reentrant-callback")
	}
	if cs.Warm {
		sb.WriteString("/after-grow-shrink-and-a-cleanup-pass")
	}
	if cs.VisitorOp != nil {
		fmt.Fprintf(&sb, "/visitor:%v", *cs.VisitorOp)
	}
	for t, ops := range cs.Threads {
		fmt.Fprintf(&sb, " T%d:", t)
		for i, o := range ops {
			if i > 0 {
				sb.WriteString(";")
			}
			sb.WriteString(o.String())
		}
	}
	return sb.String()
}

// per-thread ledger of callback deliveries
type tledger struct {
	per [sched.MaxThreads + 1][]string
}

func (l *tledger) take(t int) string {
	s := l.per[t]
	sort.Strings(s)
	out := strings.Join(s, "")
	l.per[t] = nil
	return out
}

func (cs *CacheScen) setup(l *tledger) (CacheLike, CState) {
	vtime.VEnable(epochNs)
	lay := layoutFor(cs.Rel)
	installCacheLayout(&lay)
	cfg := CacheCfg{Twin: cs.Twin, HasIvl: true, Ivl: 0, Payload: cs.Payload}
	if cs.Def > 0 {
		cfg.HasDef, cfg.Def = true, cs.Def
	}
	var c CacheLike
	var reenter CacheLike // only set for re-entrant callbacks: a callback that references the cache keeps it alive forever
	if cs.Callback {
		cfg.Callback = func(k, v int) {
			t := sched.Running()
			if t < 0 {
				t = sched.MaxThreads
			}
			l.per[t] = append(l.per[t], fmt.Sprintf("cb1:k%d=%d;", k, v))
			if reenter != nil && k != NKC-1 {
				reenter.Get(k)
				reenter.Set(NKC-1, 777, durNoExp)
				reenter.Delete(NKC - 1)
				reenter.Count()
			}
		}
	}
	c = newCache(cfg)
	if cs.CBReenter {
		reenter = c
	}
	st := CState{Now: epochNs, Def: durNoExp}
	if cs.Def > 0 {
		st.Def = cs.Def
	}
	if cs.Callback {
		st.CB = 1
	}
	baseG := int64(0)
	if cs.Warm {
		for j := 0; j < 200; j++ {
			c.SetForever(fillSpread+600+j, 1)
		}
		for j := 0; j < 200; j++ {
			c.Delete(fillSpread + 600 + j)
		}
		if s := c.Stats(); s.TotalGrowths < 1 || s.TotalShrinks < 1 || s.RootBuckets != 32 {
			panic(fmt.Sprintf("cache prologue: grow/shrink cycle did not return to the minimum table: %+v", s))
		}
		baseG = c.Stats().TotalGrowths
		l.take(sched.MaxThreads)
		c.Set(fillSpread+500, 1, 1)
		c.Set(fillSpread+501, 1, 1)
		vtime.VAdvance(3)
		st.Now += 3
		c.DeleteExpired()
		if c.Count() != 0 || len(c.Physical()) != 0 {
			panic("SEQ: sequential prologue: a cleanup pass on a cache whose two entries had expired left entries behind")
		}
		l.take(sched.MaxThreads)
	}
	for k := 0; k < cs.NKeys; k++ {
		switch cs.Init[k] {
		case ILive:
			c.SetForever(k, k+1)
			st.Ent[k] = CEntry{V: int32(k + 1), P: true}
		case ILiveTTL:
			c.Set(k, k+1, farTTL)
			st.Ent[k] = CEntry{V: int32(k + 1), E: st.Now + int64(farTTL), P: true}
		case IExpired:
			c.Set(k, k+1, 2)
			st.Ent[k] = CEntry{V: int32(k + 1), E: st.Now + 2, P: true}
		}
	}
	if cs.Table == TGrowArmed {
		slots := 3
		if cs.Twin != 0 {
			slots = 5
		}
		inTarget := 0
		for k := 0; k < cs.NKeys; k++ {
			if cs.Init[k] != IAbsent && lay.Bucket(k)&31 == 0 {
				inTarget++
			}
		}
		nfill := (slots - inTarget%slots) % slots
		if inTarget == 0 {
			nfill = slots
		}
		for j := 0; j < nfill; j++ {
			c.SetForever(fillTarget+j, 1000+j)
		}
		thr := growPolicy(CMapOfInt)
		if slots == 3 {
			thr = growPolicy(CMap)
		}
		for j := 0; c.Count() <= thr; j++ {
			c.SetForever(fillSpread+j, 2000+j)
		}
		if c.Stats().TotalGrowths != baseG {
			panic("cache prologue grew the table")
		}
	}
	vtime.VAdvance(3)
	st.Now += 3
	for _, ops := range cs.Threads {
		for _, o := range ops {
			if o.Op == CAdvance {
				// the clock is moved by a scheduled thread: reading it becomes a scheduling point
				vtime.VShared(true)
			}
		}
	}
	return c, st
}

type cacheRangeOut struct{ Pairs [][2]int }

func (r cacheRangeOut) String() string { return fmt.Sprint(r.Pairs) }

func (cs *CacheScen) Scenario() *Scenario {
	name := cs.name()
	// two or more full-table passes lock every bucket in turn: the number of distinct lock orders is
	// exponential in the table length, so these scenarios are explored preemption-bounded from the start
	trav := 0
	for _, ops := range cs.Threads {
		for _, o := range ops {
			if o.Op == CDeleteExpired || o.Op == CRange || o.Op == CItems {
				trav++
			}
		}
	}
	if cs.Table == TGrowArmed {
		trav++
	}
	if trav >= 2 && cs.Bound == 0 {
		cs.Bound = 2
		if sched.RaceBuild {
			cs.Bound = 1
		}
	}
	sc := &Scenario{Name: name, Prop: cs.Prop, NoBlock: cs.NoBlock, MaxSteps: cs.MaxSteps, PreemptBound: cs.Bound, Classes: cs.Classes, ExpectOutcomes: cs.Expect}
	var lc *linChecker
	sc.New = func() *Instance {
		l := &tledger{}
		var c CacheLike
		var st0 CState
		problem, infra := "", false
		func() {
			defer func() {
				if r := recover(); r != nil {
					// a sequential prologue that already misbehaves is a violation (of every class: the scenario
					// cannot say anything else); a table shape that cannot be produced is not a verdict
					if msg := fmt.Sprint(r); strings.HasPrefix(msg, "SEQ: ") {
						problem = strings.TrimPrefix(msg, "SEQ: ")
					} else if _, isRT := r.(runtime.Error); isRT {
						problem = "sequential prologue: the code under test panics: " + msg
					} else {
						problem, infra = fmt.Sprintf("scenario cannot be armed: %v", r), true
					}
				}
			}()
			c, st0 = cs.setup(l)
		}()
		if problem != "" {
			return &Instance{Bodies: []sched.Body{func() {}}, Finish: func(*sched.Result) (string, []OViol) {
				if infra {
					panic("INFRASTRUCTURE: " + problem + " @ " + name)
				}
				return "prologue", []OViol{{OLin | OCount | OLedger | ORange | OTerm | OMon, problem}}
			}}
		}
		if lc == nil {
			lc = newLinChecker(cacheLinModel(st0, !cs.CheckFn, cs.Classes&OLedger == 0))
		}
		hist := make([][]HOp, len(cs.Threads))
		inst := &Instance{}
		for t := range cs.Threads {
			t := t
			ops := cs.Threads[t]
			inst.Bodies = append(inst.Bodies, func() {
				for i, in := range ops {
					if in.V == 0 {
						in.V = 100*(t+1) + i + 1
					}
					call := int64(sched.Invoke())
					var out interface{}
					switch in.Op {
					case CRange:
						var ro cacheRangeOut
						visited := false
						c.Range(func(k, v int) bool {
							if k < fillTarget {
								ro.Pairs = append(ro.Pairs, [2]int{k, v})
							}
							if cs.VisitorOp != nil && !visited {
								visited = true
								vo := *cs.VisitorOp
								if vo.K < 0 {
									vo.K = k // the key being visited
								}
								if vo.V == 0 {
									vo.V = 900
								}
								if vo.Op == CRange {
									c.Range(func(int, int) bool { return true })
								} else {
									execCacheOp(c, vo, nil, nil)
								}
								l.take(t)
							}
							return true
						})
						out = ro
					case CItems:
						// Items is built on Range: the same per-key reading of the result
						var ro cacheRangeOut
						for k, v := range c.Items() {
							if k < fillTarget {
								ro.Pairs = append(ro.Pairs, [2]int{k, v})
							}
						}
						sort.Slice(ro.Pairs, func(i, j int) bool { return ro.Pairs[i][0] < ro.Pairs[j][0] })
						out = ro
					case CSetCallback:
						if in.CB == 0 {
							c.SetEvictedCallback(nil)
						} else {
							c.SetEvictedCallback(func(k, v int) {
								tt := sched.Running()
								if tt < 0 {
									tt = sched.MaxThreads
								}
								l.per[tt] = append(l.per[tt], fmt.Sprintf("cb%d:k%d=%d;", in.CB, k, v))
							})
						}
						out = COut{}
					case CAdvance:
						vtime.VAdvanceShared(in.D)
						out = COut{}
					default:
						o := execCacheOp(c, in, nil, sched.Park)
						o.Fired = l.take(t)
						out = o
					}
					ret := int64(sched.Return())
					hist[t] = append(hist[t], HOp{Thread: t, In: in, Out: out, Call: call, Ret: ret})
				}
			})
		}
		var all []HOp
		inst.Describe = func() []string {
			var s []string
			for _, o := range all {
				s = append(s, o.String())
			}
			return s
		}
		inst.Finish = func(res *sched.Result) (string, []OViol) {
			var viols []OViol
			all = all[:0]
			for t := range hist {
				all = append(all, hist[t]...)
			}
			ts := int64(res.Steps) + 10
			var epi []HOp
			var count, physN, liveSeen int
			er := sched.Run([]sched.Body{func() {
				count = c.Count()
				phys := c.Physical()
				physN = len(phys)
				fillers := 0
				for k := range phys {
					if k >= fillTarget {
						fillers++
					}
				}
				// quiescent Count against the entries the specification says are physically present
				// (live ones, and expired ones no call had to remove yet)
				epi = append(epi, HOp{Thread: 9, In: CIn{Op: CCount}, Out: COut{N: count - fillers}, Call: ts, Ret: ts + 1})
				ts += 2
				for k := 0; k < cs.NKeys; k++ {
					v, t, ok := c.GetWithExpiration(k)
					if ok {
						liveSeen++
					}
					o := COut{V: v, Ok: ok}
					if !t.IsZero() {
						o.Exp = t.UnixNano()
					}
					epi = append(epi, HOp{Thread: 9, In: CIn{Op: CGetWithExpiration, K: k}, Out: o, Call: ts, Ret: ts + 1})
					ts += 2
				}
				// write probe: every scenario key can still be written and removed
				for k := 0; k < cs.NKeys; k++ {
					c.GetOrSet(k, 9999, durNoExp)
				}
				for k := 0; k < cs.NKeys; k++ {
					c.Delete(k)
				}
				c.DeleteExpired()
			}}, sched.Config{Horizon: 200000})
			l.take(sched.MaxThreads)
			if er.Outcome != sched.OComplete {
				return "epilogue:" + er.Outcome.String(), []OViol{{OTerm, "quiescent epilogue did not terminate (" + er.Outcome.String() + "): " + er.Detail}}
			}
			all = append(all, epi...)
			var sb strings.Builder
			for _, o := range all {
				fmt.Fprintf(&sb, "%v->%v;", o.In, o.Out)
			}
			fmt.Fprintf(&sb, "count=%d", count)
			outcome := sb.String()
			// expand traversals and cleanup passes per key
			var lin []HOp
			for _, o := range all {
				in := o.In.(CIn)
				switch in.Op {
				case CRange, CItems:
					ro := o.Out.(cacheRangeOut)
					seen := map[int]int{}
					for _, p := range ro.Pairs {
						if _, dup := seen[p[0]]; dup {
							viols = append(viols, OViol{ORange, fmt.Sprintf("Range visited key k%d twice: %v", p[0], ro.Pairs)})
						}
						seen[p[0]] = p[1]
					}
					for k := 0; k < cs.NKeys; k++ {
						v, ok := seen[k]
						lin = append(lin, HOp{Thread: o.Thread, In: CIn{Op: CRangeVisit, K: k}, Out: COut{V: v, Ok: ok}, Call: o.Call, Ret: o.Ret})
					}
				case CDeleteExpired:
					co := o.Out.(COut)
					for k := 0; k < cs.NKeys; k++ {
						f := ""
						for _, part := range strings.SplitAfter(co.Fired, ";") {
							if strings.Contains(part, fmt.Sprintf(":k%d=", k)) {
								f += part
							}
						}
						lin = append(lin, HOp{Thread: o.Thread, In: CIn{Op: CDelExpKey, K: k}, Out: COut{Fired: f}, Call: o.Call, Ret: o.Ret})
					}
				case CCount:
					// mid-flight Count is unconstrained
					if o.Thread == 9 {
						lin = append(lin, o)
					}
				default:
					lin = append(lin, o)
				}
			}
			if !lc.Check(lin) {
				// is it only the quiescent Count that no order of the calls explains?
				var noCount []HOp
				for _, o := range lin {
					if !(o.Thread == 9 && o.In.(CIn).Op == CCount) {
						noCount = append(noCount, o)
					}
				}
				if lc.Check(noCount) {
					viols = append(viols, OViol{OLin | OLedger | OCount, fmt.Sprintf("quiescent Count=%d (physical entries=%d, live entries=%d) is not what the completed calls leave behind under any order w.r.t. the TTL-map semantics", count, physN, liveSeen)})
				} else {
					viols = append(viols, OViol{OLin | OLedger, "history is not linearizable w.r.t. the TTL-map semantics"})
				}
			}
			if count != physN || count < liveSeen {
				viols = append(viols, OViol{OCount, fmt.Sprintf("quiescent Count=%d, physical entries=%d, live entries=%d", count, physN, liveSeen)})
			}
			return outcome, viols
		}
		return inst
	}
	return sc
}
