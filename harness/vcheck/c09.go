package main

import (
	"fmt"
	"math"
	"time"

	vtime "github.com/fufuok/cache/internal/vshim/time"
)

// ---- C09: expiration instants are computed and reported exactly as the TTL dictates ----

var c09Durs = []time.Duration{
	math.MinInt64, durNoExp - 1, durNoExp, durNoExp + 1, durDef - 1, durDef, durDef + 1, -1, 0, 1, 2, time.Hour,
	// magnitudes at which a unit conversion (to ms, s) or a detour through float64 would lose or gain a nanosecond
	time.Millisecond - 1, time.Second + 1, 1<<53 + 1,
	time.Duration(math.MaxInt64 - epochNs - 4*int64(time.Hour)), // largest ttl whose instant stays representable after the clock steps used here
	math.MaxInt64, // call time + d overflows int64 nanoseconds: the entry never expires
}

func c09Alphabet(level int) []CIn {
	var ev []CIn
	ev = append(ev, CIn{Op: CAdvance, D: 1}, CIn{Op: CAdvance, D: 2}, CIn{Op: CAdvance, D: time.Hour})
	ev = append(ev, CIn{Op: CGet}, CIn{Op: CGetWithExpiration}, CIn{Op: CGetWithTTL}, CIn{Op: CDefaultExpiration}, CIn{Op: CRange}, CIn{Op: CItems})
	ev = append(ev, CIn{Op: CSetDefault, V: 1}, CIn{Op: CSetForever, V: 2}, CIn{Op: CDelete})
	for _, d := range c09Durs {
		ev = append(ev, CIn{Op: CSet, V: 3, D: d})
	}
	for _, d := range c09Durs {
		ev = append(ev, CIn{Op: CSetDefaultExpiration, D: d})
	}
	for _, d := range c09Durs {
		ev = append(ev, CIn{Op: CGetAndRefresh, D: d}, CIn{Op: CGetOrSet, V: 4, D: d}, CIn{Op: CGetAndSet, V: 5, D: d},
			CIn{Op: CGetOrCompute, V: 6, D: d}, CIn{Op: CCompute, V: 7, Fn: FnSet, D: d})
		if level >= 1 {
			ev = append(ev, CIn{Op: CCompute, V: 8, Fn: FnSetIfAbsent, D: d})
		}
	}
	return ev
}

func normDef(d time.Duration) time.Duration {
	if d < 1 {
		return durNoExp
	}
	return d
}

func genC09(tier string) []*Scenario {
	lvl := lvlOf(tier)
	depth := 4
	twins := []int{0, 1}
	if lvl >= 1 {
		depth = 5
		twins = []int{0, 1, 2}
	}
	var out []*Scenario
	ev := c09Alphabet(lvl)
	add := func(cfg CacheCfg, def time.Duration) {
		name := "C09/seq/" + cfg.String()
		sp := newCacheSeqSpec(name, cfg, def, false, ev, depth, "C09")
		out = append(out, &Scenario{Name: name, Prop: "C09", Seq: sp, ExpectOutcomes: 2})
	}
	for _, tw := range twins {
		add(CacheCfg{Twin: tw}, durNoExp)                                                     // New(): defaults only
		add(CacheCfg{Twin: tw, HasIvl: true, Ivl: -5, HasMinCap: true, MinCap: -3}, durNoExp) // negative interval / capacity are normalised
		// the same option twice: the later occurrence wins, whatever the earlier one said
		for _, d := range []time.Duration{durNoExp, 0, 2} {
			add(CacheCfg{Twin: tw, Earlier: true, EarlierDef: time.Hour, EarlierIvl: -1, HasDef: true, Def: d, HasIvl: true, Ivl: 0}, normDef(d))
		}
		add(CacheCfg{Twin: tw, Earlier: true, EarlierDef: durNoExp, EarlierIvl: -1, HasDef: true, Def: time.Hour, HasIvl: true, Ivl: 0}, time.Hour)
		for _, d := range []time.Duration{durNoExp, durDef, -1, 0, 1, 2, time.Hour} {
			add(CacheCfg{Twin: tw, HasDef: true, Def: d}, normDef(d))
			add(CacheCfg{Twin: tw, UseDefault: true, Def: d, Ivl: 0}, normDef(d))
			if lvl >= 1 {
				add(CacheCfg{Twin: tw, HasDef: true, Def: d, HasIvl: true, Ivl: 0, HasMinCap: true, MinCap: 1000}, normDef(d))
				add(CacheCfg{Twin: tw, UseDefault: true, Def: d, Ivl: -1}, normDef(d))
			}
		}
	}
	return out
}

func init() {
	scenarioGens["C09"] = genC09
	checks["C09"] = func(rc *runCtx) int {
		return runE1Check(rc, []string{
			"single goroutine; virtual clock starting at 10^18 ns so that every instant now+d used is representable as UnixNano; tickers are captured and never fire",
			"TTL/default alphabet: MinInt64, -2s-1ns, -2s (NoExpiration), -2s+1ns, -1s-1ns, -1s (DefaultExpiration), -1s+1ns, -1ns, 0, 1ns, 2ns, 1h and the largest representable ttl; the code compares d only with the sentinel and with 0, so both sides of every comparison boundary are in the alphabet; other values are covered by that partition argument only",
			"depth-bounded (no fixpoint: hour-long entries never saturate): all event sequences up to the stated depth from every constructor variant",
			"now+d beyond int64 nanoseconds is outside the domain (Time.UnixNano is undefined there)",
		}, func(cov map[string]interface{}) {
			cov["ttl_alphabet"] = fmt.Sprint(c09Durs)
		})
	}
	_ = vtime.VNow
}
