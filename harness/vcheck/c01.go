package main

import (
	"fmt"
	"time"
)

// ---- C01 (and the sequential parts of C06/C07/C08): explicit-state search over
// cache call sequences and clock advances against the TTL reference model ----

func cacheAlphabet(level int, withCallbacks bool) []CIn {
	ttls := []time.Duration{durNoExp, durDef, 0, -1, 1, 2}
	vals := []int{1, 2}
	if level >= 1 {
		ttls = []time.Duration{durNoExp, durDef, 0, -1, 1, 2, 5}
	}
	keys := []int{0, 1}
	var ev []CIn
	// simplest first: clock, reads, then writes
	ev = append(ev, CIn{Op: CAdvance, D: 1}, CIn{Op: CAdvance, D: 2})
	for _, k := range keys {
		ev = append(ev, CIn{Op: CGet, K: k}, CIn{Op: CGetWithExpiration, K: k}, CIn{Op: CGetWithTTL, K: k})
	}
	ev = append(ev, CIn{Op: CCount}, CIn{Op: CItems}, CIn{Op: CRange}, CIn{Op: CRange, Stop: 1}, CIn{Op: CRangeNil})
	for _, k := range keys {
		ev = append(ev, CIn{Op: CDelete, K: k}, CIn{Op: CGetAndDelete, K: k})
	}
	ev = append(ev, CIn{Op: CDeleteExpired}, CIn{Op: CClear})
	for _, k := range keys {
		for _, v := range vals {
			ev = append(ev, CIn{Op: CSetDefault, K: k, V: v}, CIn{Op: CSetForever, K: k, V: v})
			for _, d := range ttls {
				ev = append(ev, CIn{Op: CSet, K: k, V: v, D: d})
			}
		}
	}
	for _, k := range keys {
		for _, d := range ttls {
			ev = append(ev, CIn{Op: CGetAndRefresh, K: k, D: d})
			v := 1 + k // one value per key keeps the alphabet small; Set covers both values
			ev = append(ev, CIn{Op: CGetOrSet, K: k, V: v + 2, D: d}, CIn{Op: CGetAndSet, K: k, V: v + 2, D: d}, CIn{Op: CGetOrCompute, K: k, V: v + 2, D: d})
			for _, fn := range []FnKind{FnSet, FnDel, FnSetIfAbsent, FnDelIfPresent} {
				if level == 0 && d != durNoExp && d != 2 && d != durDef {
					continue
				}
				ev = append(ev, CIn{Op: CCompute, K: k, V: 5, Fn: fn, D: d})
			}
		}
	}
	ev = append(ev, CIn{Op: CSetDefaultExpiration, D: 0}, CIn{Op: CSetDefaultExpiration, D: 2}, CIn{Op: CDefaultExpiration})
	if withCallbacks {
		ev = append(ev, CIn{Op: CSetCallback, CB: 0}, CIn{Op: CSetCallback, CB: 1}, CIn{Op: CSetCallback, CB: 2})
	}
	if level >= 1 {
		ev = append(ev, CIn{Op: CBulkInsert}, CIn{Op: CBulkDelete})
	}
	return ev
}

// genSeqCache builds the sequence-search jobs. prop C01 compares every output except the
// callback ledger; prop C06 compares the ledger only (and stops expanding where other outputs differ).
func genSeqCache(prop string, lvl int) []*Scenario {
	var out []*Scenario
	for twin := 0; twin < 3; twin++ {
		for _, cb := range []bool{false, true} {
			if prop == "C06" && !cb {
				continue
			}
			if lvl == 0 && twin == 2 && cb {
				continue
			}
			cfg := CacheCfg{Twin: twin, HasIvl: true, Ivl: 0}
			name := fmt.Sprintf("%s/seq/%s/callback=%v", prop, twinNames[twin], cb)
			sp := newCacheSeqSpec(name, cfg, durNoExp, cb, cacheAlphabet(lvl, cb), 0, prop)
			out = append(out, &Scenario{Name: name, Prop: prop, Seq: sp, ExpectOutcomes: 2})
		}
	}
	return out
}

// resizeAlphabet: one key, few TTLs, plus the macro events that make the table grow and shrink (and Clear):
// "an unexpired value is never dropped by internal table resizing" for entries in every expiry state.
func resizeAlphabet() []CIn {
	ev := []CIn{{Op: CAdvance, D: 1}, {Op: CAdvance, D: 2}, {Op: CGet}, {Op: CGetWithTTL}, {Op: CCount}, {Op: CRange}, {Op: CItems},
		{Op: CDelete}, {Op: CDeleteExpired}, {Op: CClear}, {Op: CBulkInsert}, {Op: CBulkDelete}}
	for _, d := range []time.Duration{durNoExp, 1, 2} {
		ev = append(ev, CIn{Op: CSet, V: 1, D: d}, CIn{Op: CGetOrSet, V: 2, D: d}, CIn{Op: CCompute, V: 3, Fn: FnSet, D: d})
	}
	ev = append(ev, CIn{Op: CSet, K: 1, V: 4, D: 2}, CIn{Op: CGet, K: 1}, CIn{Op: CGetAndRefresh, D: 2})
	return ev
}

// staggered: the search starts from a cache holding three entries with different expiries that has been used
// before (a cleanup pass ran, a Range ran, settings were read): whatever an implementation remembers from
// earlier calls (a clock reading, the next expiry, a scratch buffer) is stale in some reachable state.
func genStaggered(prop string) []*Scenario {
	var out []*Scenario
	prologue := []CIn{{Op: CSet, K: 0, V: 9, D: 1}, {Op: CAdvance, D: 2}, {Op: CDeleteExpired}, {Op: CRange}, {Op: CItems}, {Op: CCount},
		{Op: CSet, K: 0, V: 1, D: 2}, {Op: CSet, K: 1, V: 2, D: 4}, {Op: CSet, K: 2, V: 3, D: 6}}
	ev := []CIn{{Op: CAdvance, D: 1}, {Op: CAdvance, D: 2}, {Op: CDeleteExpired}, {Op: CCount}, {Op: CItems}, {Op: CRange},
		{Op: CGet, K: 0}, {Op: CGet, K: 1}, {Op: CGetWithTTL, K: 2}, {Op: CDelete, K: 1}, {Op: CGetAndDelete, K: 2},
		{Op: CSet, K: 0, V: 4, D: 3}, {Op: CGetAndRefresh, K: 2, D: 1}, {Op: CGetAndRefresh, K: 1, D: 5}, {Op: CGetOrSet, K: 1, V: 5, D: 1}, {Op: CSetForever, K: 2, V: 6}}
	for twin := 0; twin < 2; twin++ {
		cfg := CacheCfg{Twin: twin, HasIvl: true, Ivl: 0}
		name := fmt.Sprintf("%s/seq-from-staggered-expiries/%s", prop, twinNames[twin])
		sp := newCacheSeqSpecFrom(name, cfg, durNoExp, true, prologue, ev, 0, prop)
		out = append(out, &Scenario{Name: name, Prop: prop, Seq: sp, ExpectOutcomes: 2})
	}
	return out
}

func genC01(tier string) []*Scenario {
	out := genSeqCache("C01", lvlOf(tier))
	out = append(out, genStaggered("C01")...)
	for twin := 0; twin < 3; twin++ {
		cfg := CacheCfg{Twin: twin, HasIvl: true, Ivl: 0}
		name := fmt.Sprintf("C01/seq-with-resizes/%s", twinNames[twin])
		sp := newCacheSeqSpec(name, cfg, durNoExp, twin == 1, resizeAlphabet(), 0, "C01")
		out = append(out, &Scenario{Name: name, Prop: "C01", Seq: sp, ExpectOutcomes: 2})
	}
	return out
}

var e2Assumptions = []string{
	"single goroutine; virtual clock (package time is substituted in package cache); janitor disabled (cleanup interval 0)",
	"alphabet: 2 keys (3 in the thorough tier), small value set, TTL arguments {NoExpiration, DefaultExpiration, 0, -1ns, 1ns, 2ns, 5ns}, clock steps of 1 and 2 ns so every entry passes through now==e-1, now==e, now==e+1",
	"state key = model state with expiries relative to now; bucket layout and table size are not part of the key (their irrelevance is property C11, checked separately)",
	"lazy physical removal of expired entries is observed, not specified",
}

func init() {
	scenarioGens["C01"] = genC01
	checks["C01"] = func(rc *runCtx) int {
		extraFindings = func(cov map[string]interface{}) []Finding {
			f, n := c01ValueKinds()
			cov["value_kind_scripts_enumerated"] = n
			return f
		}
		return runE1Check(rc, e2Assumptions, nil)
	}
	replayers["C01values"] = func(path, prop string, payload map[string]interface{}) int {
		f, _ := c01ValueKinds()
		for _, x := range f {
			fmt.Printf("VIOLATION property=C01 replay=%s\n  %s\n  %s\n", path, x.Signature, x.Detail)
		}
		if len(f) > 0 {
			return 1
		}
		fmt.Println("no violation")
		return 0
	}
	replayers["E2"] = func(path, prop string, payload map[string]interface{}) int {
		tier, _ := payload["tier"].(string)
		name, _ := payload["scenario"].(string)
		var evs []int
		if l, ok := payload["events"].([]interface{}); ok {
			for _, x := range l {
				evs = append(evs, int(x.(float64)))
			}
		}
		for _, sc := range scenarioGens[prop](tier) {
			if sc.Name == name && sc.Seq != nil {
				inst, sig, d := sc.Seq.replay(evs, true)
				fmt.Println("sequence search:", name)
				for _, l := range inst.Log() {
					fmt.Println("  ", l)
				}
				if sig != "" {
					fmt.Printf("VIOLATION property=%s replay=%s\n  %s\n  %s\n", prop, path, sig, d)
					return 1
				}
				fmt.Println("no violation on this sequence")
				return 0
			}
		}
		fmt.Println("scenario not found:", name)
		return 2
	}
}
