package main

// Scenario generators for the Map / MapOf properties (C03, C04 and the
// families reused by C05, C07, C08, C13, C14, C16).

var (
	opLoad   = MIn{Op: MLoad}
	opStore  = MIn{Op: MStore}
	opLoS    = MIn{Op: MLoadOrStore}
	opLaS    = MIn{Op: MLoadAndStore}
	opLoC    = MIn{Op: MLoadOrCompute}
	opCSet   = MIn{Op: MCompute, Fn: FnSet}
	opCDel   = MIn{Op: MCompute, Fn: FnDel}
	opLaD    = MIn{Op: MLoadAndDelete}
	opDelete = MIn{Op: MDelete}
	opClear  = MIn{Op: MClear}
	opRange  = MIn{Op: MRange}
	opSize   = MIn{Op: MSize}
)

var (
	writeOps  = []MIn{opStore, opLoS, opLaS, opLoC, opCSet, opCDel, opLaD, opDelete}
	insertOps = []MIn{opStore, opLoS, opLaS, opLoC, opCSet}
	removeOps = []MIn{opDelete, opLaD, opCDel}
	allOps    = []MIn{opLoad, opStore, opLoS, opLaS, opLoC, opCSet, opCDel, opLaD, opDelete, opClear}
)

func on(op MIn, k int) MIn { op.K = k; return op }

type genCfg struct {
	prop    string
	classes int
	checkFn bool
}

// genMapFamilies builds the linearizability families for one container kind.
// level 0 = quick, 1 = thorough.
func genMapFamilies(g genCfg, c ContainerKind, level int, full bool) []*MapScen {
	var out []*MapScen
	add := func(ms *MapScen) {
		ms.Prop, ms.Classes, ms.CheckFn, ms.C = g.prop, g.classes, g.checkFn, c
		out = append(out, ms)
	}
	// F1: two threads, one call each, same key, absent / present
	for i, a := range allOps {
		for j, b := range allOps {
			if j < i {
				continue
			}
			for _, init := range [][]int{{0, 0}, {1, 0}} {
				add(&MapScen{Rel: RelSS, NKeys: 2, Init: init, Table: TPlain, Threads: [][]MIn{{on(a, 0)}, {on(b, 0)}}})
			}
		}
	}
	if !full {
		// reduced set for secondary container kinds: slot reuse only
		for _, rel := range []KeyRel{RelSS, RelSD} {
			for _, rd := range []MIn{opLoad, opLoS} {
				for _, k := range []int{0, 1} {
					add(&MapScen{Rel: rel, NKeys: 2, Init: []int{1, 0}, Table: TPlain,
						Threads: [][]MIn{{on(opDelete, 0), on(opStore, 1)}, {on(rd, k)}}})
				}
			}
		}
		return out
	}
	// F2: bucket mates: T0 on k0, T1 on k1
	for _, rel := range []KeyRel{RelSS, RelSD} {
		for _, a := range writeOps {
			for _, b := range writeOps {
				for _, init := range [][]int{{0, 0}, {1, 0}, {1, 1}} {
					if level == 0 && rel == RelSD && init[0] == 1 && init[1] == 1 {
						continue
					}
					add(&MapScen{Rel: rel, NKeys: 2, Init: init, Table: TPlain, Threads: [][]MIn{{on(a, 0)}, {on(b, 1)}}})
				}
			}
		}
	}
	// F3: slot reuse: k1 is inserted into the slot k0 vacates while a reader looks at k0 or k1
	for _, rel := range []KeyRel{RelSS, RelSD} {
		for _, del := range removeOps {
			for _, ins := range []MIn{opStore, opLoS, opCSet} {
				for _, rd := range []MIn{opLoad, opLoS, opLoC} {
					for _, k := range []int{0, 1} {
						if level == 0 && (del.Op != MDelete && ins.Op != MStore) {
							continue
						}
						add(&MapScen{Rel: rel, NKeys: 2, Init: []int{1, 0}, Table: TPlain,
							Threads: [][]MIn{{on(del, 0), on(ins, 1)}, {on(rd, k)}}})
					}
				}
			}
		}
	}
	// F4: keys living in an overflow bucket (chain of length 2)
	for _, ff := range []bool{false, true} {
		for _, a := range []MIn{opStore, opDelete, opLaS, opCDel} {
			for _, b := range []MIn{opLoad, opStore, opDelete, opLoS} {
				add(&MapScen{Rel: RelSD, NKeys: 2, Init: []int{1, 1}, Table: TChain2, FillFirst: ff, Threads: [][]MIn{{on(a, 0)}, {on(b, 1)}}})
				add(&MapScen{Rel: RelSD, NKeys: 2, Init: []int{1, 0}, Table: TChain2, FillFirst: ff, Threads: [][]MIn{{on(a, 0)}, {on(b, 0)}}})
			}
		}
	}
	// F4c: a hole in a non-tail bucket of a chain is refilled by a new key while its neighbours are read
	for _, del := range removeOps {
		for _, ins := range []MIn{opStore, opLoS, opLaS, opLoC, opCSet} {
			if level == 0 && del.Op != MDelete && ins.Op != MStore {
				continue
			}
			for _, rd := range []MIn{on(opLoad, 1), on(opLoad, 2), on(opLoS, 1), on(opDelete, 1)} {
				add(&MapScen{Rel: RelSD, NKeys: 3, Init: []int{1, 1, 0}, Table: TChain2, Threads: [][]MIn{{on(del, 0), on(ins, 2)}, {rd}}})
			}
		}
	}
	// F4d: very long chain
	for _, a := range []MIn{opStore, opDelete, opLaD} {
		for _, b := range []MIn{opLoad, opStore, opLoS} {
			add(&MapScen{Rel: RelSD, NKeys: 3, Init: []int{1, 1, 0}, Table: TLongChain, Threads: [][]MIn{{on(a, 0)}, {on(b, 1)}}})
			add(&MapScen{Rel: RelSD, NKeys: 3, Init: []int{1, 1, 0}, Table: TLongChain, Threads: [][]MIn{{on(a, 2)}, {on(b, 2)}}})
		}
	}
	// F4b: the insert appends a new bucket to a full chain while others read / write / traverse that chain
	for _, ins := range insertOps {
		for _, b := range append(append([]MIn{}, allOps...), opRange) {
			if level == 0 && ins.Op != MStore && ins.Op != MLoadOrCompute && b.Op != MLoad {
				continue
			}
			if b.Op == MRange && g.classes&(OLin|ORange) == OLin {
				continue // traversals are C07's
			}
			add(&MapScen{Rel: RelSD, NKeys: 2, Init: []int{0, 1}, Table: TFullChain, Threads: [][]MIn{{on(ins, 0)}, {on(b, 1)}}})
			if b.Op != MRange && b.Op != MClear {
				add(&MapScen{Rel: RelSD, NKeys: 2, Init: []int{0, 0}, Table: TFullChain, Threads: [][]MIn{{on(ins, 0)}, {on(b, 0)}}})
				add(&MapScen{Rel: RelSS, NKeys: 2, Init: []int{0, 0}, Table: TFullChain, Threads: [][]MIn{{on(ins, 0)}, {on(b, 1)}}})
			}
		}
	}
	// F5: grow in flight. T0 inserts absent k0 into a full chain above the load factor.
	// T1 works on k1 which is (a) present in the same chain, (b) in another bucket, present or absent.
	for _, ins := range insertOps {
		if level == 0 && ins.Op != MStore && ins.Op != MLoadOrCompute {
			continue
		}
		for _, b := range allOps {
			add(&MapScen{Rel: RelSD, NKeys: 2, Init: []int{0, 1}, Table: TGrowArmed, Threads: [][]MIn{{on(ins, 0)}, {on(b, 1)}}, ExpectGrow: true})
			add(&MapScen{Rel: RelDD, NKeys: 2, Init: []int{0, 1}, Table: TGrowArmed, Threads: [][]MIn{{on(ins, 0)}, {on(b, 1)}}, ExpectGrow: true})
			if b.Op != MClear {
				add(&MapScen{Rel: RelDD, NKeys: 2, Init: []int{0, 0}, Table: TGrowArmed, Threads: [][]MIn{{on(ins, 0)}, {on(b, 1)}}, ExpectGrow: true})
			}
		}
		// reader of the very key being inserted while the table is replaced
		add(&MapScen{Rel: RelSD, NKeys: 2, Init: []int{0, 0}, Table: TGrowArmed, Threads: [][]MIn{{on(ins, 0)}, {on(opLoad, 0)}}, ExpectGrow: true})
	}
	// F5b: the chain that triggers the grow has an overflow bucket: lookups and writes of keys living in it
	for _, ff := range []bool{false, true} {
		for _, b := range []MIn{opLoad, opStore, opDelete, opLoS, opLaD} {
			add(&MapScen{Rel: RelSD, NKeys: 2, Init: []int{0, 1}, Table: TGrowArmed, Chain: 2, FillFirst: ff, Threads: [][]MIn{{on(opStore, 0)}, {on(b, 1)}}, ExpectGrow: true})
		}
	}
	// F5c: keys whose in-bucket tag is all zero (top hash 0 / h2 0), alone in their bucket or next to others,
	// across plain operations, a grow and a shrink
	for _, b := range []MIn{opLoad, opStore, opDelete, opLoS} {
		add(&MapScen{Rel: RelZeroDD, NKeys: 2, Init: []int{0, 1}, Table: TGrowArmed, Threads: [][]MIn{{on(opStore, 0)}, {on(b, 1)}}, ExpectGrow: true})
		add(&MapScen{Rel: RelZeroDD, NKeys: 2, Init: []int{1, 1}, Table: TShrinkArmed, Threads: [][]MIn{{on(opDelete, 0)}, {on(b, 1)}}, ExpectShrink: true})
		add(&MapScen{Rel: RelZeroSD, NKeys: 2, Init: []int{1, 1}, Table: TPlain, Threads: [][]MIn{{on(opDelete, 0), on(opStore, 0)}, {on(b, 1)}}})
		add(&MapScen{Rel: RelZeroSD, NKeys: 2, Init: []int{0, 1}, Table: TPlain, Threads: [][]MIn{{on(opStore, 0)}, {on(b, 0)}}})
	}
	// F5d: tags at the top of the tag range (0x7f.. in MapOf's meta bytes, 0xfffff.. in Map's top hashes), every slot
	// of the bucket used in turn (k0, k1, k2 occupy slots 0..2; with the chain fillers first they sit in the overflow bucket)
	for _, b := range []MIn{opLoad, opStore, opDelete, opLoS, opLaD} {
		add(&MapScen{Rel: RelMaxSD, NKeys: 3, Init: []int{1, 1, 0}, Table: TPlain, Threads: [][]MIn{{on(opStore, 2)}, {on(b, 1)}}})
		add(&MapScen{Rel: RelMaxSD, NKeys: 3, Init: []int{1, 1, 1}, Table: TPlain, Threads: [][]MIn{{on(opDelete, 0), on(opStore, 0)}, {on(b, 2)}}})
		add(&MapScen{Rel: RelMaxSD, NKeys: 3, Init: []int{1, 1, 0}, Table: TChain2, FillFirst: true, Threads: [][]MIn{{on(opStore, 2)}, {on(b, 0)}}})
		add(&MapScen{Rel: RelMaxSD, NKeys: 2, Init: []int{0, 1}, Table: TGrowArmed, Threads: [][]MIn{{on(opStore, 0)}, {on(b, 1)}}, ExpectGrow: true})
	}
	// F15: Clear against two completed writes of one thread to an early and a late bucket (either order):
	// Clear is one atomic step, it cannot drop the later write and spare the earlier one
	for _, rel := range []KeyRel{RelLate, RelDD} {
		for _, w := range []MIn{opStore, opLoS} {
			for _, init := range [][]int{{0, 0}, {1, 1}} {
				add(&MapScen{Rel: rel, NKeys: 2, Init: init, Table: TPlain, Threads: [][]MIn{{opClear}, {on(w, 0), on(w, 1)}}})
				add(&MapScen{Rel: rel, NKeys: 2, Init: init, Table: TPlain, Threads: [][]MIn{{opClear}, {on(w, 1), on(w, 0)}}})
			}
		}
	}
	// F16: chains of exactly three and four buckets (scenario keys in the root bucket or in the last one)
	for _, ch := range []int{3, 4} {
		for _, ff := range []bool{false, true} {
			for _, b := range []MIn{opLoad, opLoS, opDelete, opLaD} {
				add(&MapScen{Rel: RelSD, NKeys: 3, Init: []int{1, 1, 0}, Table: TChain2, Chain: ch, FillFirst: ff, Threads: [][]MIn{{on(opDelete, 0), on(opStore, 2)}, {on(b, 1)}}})
			}
			add(&MapScen{Rel: RelSD, NKeys: 3, Init: []int{1, 1, 0}, Table: TChain2, Chain: ch, FillFirst: ff, Threads: [][]MIn{{on(opStore, 2)}, {on(opStore, 0)}}})
		}
	}
	// F13: non-initial start: the map has grown and shrunk back to its minimum length before the scenario
	for _, a := range []MIn{opStore, opDelete, opLoS, opCDel, opClear} {
		for _, b := range []MIn{opLoad, opStore, opDelete, opLaD, opLoC, opClear} {
			add(&MapScen{Rel: RelSS, NKeys: 2, Init: []int{1, 0}, Table: TPlain, Cycled: true, Threads: [][]MIn{{on(a, 0)}, {on(b, 0)}}})
			add(&MapScen{Rel: RelSD, NKeys: 2, Init: []int{1, 1}, Table: TPlain, Cycled: true, Threads: [][]MIn{{on(a, 0)}, {on(b, 1)}}})
		}
	}
	for _, b := range []MIn{opLoad, opStore, opDelete, opLoS} {
		add(&MapScen{Rel: RelSD, NKeys: 2, Init: []int{0, 1}, Table: TGrowArmed, Cycled: true, Threads: [][]MIn{{on(opStore, 0)}, {on(b, 1)}}, ExpectGrow: true})
		add(&MapScen{Rel: RelDD, NKeys: 2, Init: []int{0, 1}, Table: TGrowArmed, Cycled: true, Threads: [][]MIn{{on(opStore, 0)}, {on(b, 1)}}, ExpectGrow: true})
		add(&MapScen{Rel: RelDD, NKeys: 2, Init: []int{1, 1}, Table: TShrinkArmed, Cycled: true, Threads: [][]MIn{{on(opDelete, 0)}, {on(b, 1)}}, ExpectShrink: true})
	}
	// F14: a grow-only map (fresh, and grown before): Clear still empties it, deletes never shrink it
	for _, cyc := range []bool{false, true} {
		for _, b := range []MIn{opLoad, opStore, opDelete, opLoS, opClear} {
			add(&MapScen{Rel: RelSD, NKeys: 2, Init: []int{1, 1}, Table: TPlain, GrowOnly: true, Cycled: cyc, Threads: [][]MIn{{opClear}, {on(b, 1)}}})
		}
		add(&MapScen{Rel: RelSD, NKeys: 2, Init: []int{1, 1}, Table: TPlain, GrowOnly: true, Cycled: cyc, Threads: [][]MIn{{on(opDelete, 0)}, {on(opDelete, 1)}}})
	}
	// F6: shrink in flight. T0 removes k0 leaving its bucket empty below the shrink threshold.
	for _, del := range removeOps {
		if level == 0 && del.Op != MDelete {
			continue
		}
		for _, b := range allOps {
			for _, init := range [][]int{{1, 1}, {1, 0}} {
				add(&MapScen{Rel: RelDD, NKeys: 2, Init: init, Table: TShrinkArmed, Threads: [][]MIn{{on(del, 0)}, {on(b, 1)}}, ExpectShrink: true})
			}
		}
		add(&MapScen{Rel: RelDD, NKeys: 2, Init: []int{1, 0}, Table: TShrinkArmed, Threads: [][]MIn{{on(del, 0)}, {on(opLoad, 0)}}, ExpectShrink: true})
	}
	if level >= 1 {
		// F7: three threads, one call each on one key
		red := []MIn{opLoad, opStore, opLoS, opDelete, opClear, opCDel}
		for i, a := range red {
			for j, b := range red {
				for k, c3 := range red {
					if j < i || k < j {
						continue
					}
					for _, init := range [][]int{{0, 0}, {1, 0}} {
						add(&MapScen{Rel: RelSS, NKeys: 2, Init: init, Table: TPlain, Threads: [][]MIn{{on(a, 0)}, {on(b, 0)}, {on(c3, 0)}}})
					}
				}
			}
		}
		// F8: two threads, two calls each over two bucket mates
		w2 := []MIn{opStore, opDelete, opLoS}
		for _, a := range w2 {
			for _, b := range w2 {
				for _, c3 := range w2 {
					for _, d := range []MIn{opLoad, opStore, opDelete} {
						add(&MapScen{Rel: RelSS, NKeys: 2, Init: []int{1, 0}, Table: TPlain,
							Threads: [][]MIn{{on(a, 0), on(b, 1)}, {on(c3, 1), on(d, 0)}}})
					}
				}
			}
		}
		// F9: resize with two other callers (3 threads), preemption bounded
		for _, b := range []MIn{opStore, opDelete, opClear} {
			for _, c3 := range []MIn{opLoad, opStore} {
				add(&MapScen{Rel: RelDD, NKeys: 3, Init: []int{0, 1, 0}, Table: TGrowArmed, Bound: 2,
					Threads: [][]MIn{{on(opStore, 0)}, {on(b, 1)}, {on(c3, 2)}}, ExpectGrow: true})
			}
		}
		// F10: both callers hit the full chain (both may resize), preemption bounded
		for _, b := range insertOps {
			add(&MapScen{Rel: RelSD, NKeys: 2, Init: []int{0, 0}, Table: TGrowArmed, Bound: 3,
				Threads: [][]MIn{{on(opStore, 0)}, {on(b, 1)}}, ExpectGrow: true})
		}
		// F12: four callers on one key / one bucket (MapOf only: the spin-lock Map explodes beyond three)
		if level >= 2 && c != CMap && c != CMapP {
			four := []MIn{opStore, opDelete, opLoS, opLoad, opClear}
			for i, a := range four {
				for j, b := range four {
					for k, c3 := range four {
						for l, d := range four {
							if j < i || k < j || l < k {
								continue
							}
							add(&MapScen{Rel: RelSS, NKeys: 2, Init: []int{1, 0}, Table: TPlain, Bound: 3, Threads: [][]MIn{{on(a, 0)}, {on(b, 0)}, {on(c3, 0)}, {on(d, 1)}}})
						}
					}
				}
			}
		}
		// F11: keys that stop being bucket mates after the grow
		for _, b := range allOps {
			add(&MapScen{Rel: RelSplit, NKeys: 2, Init: []int{0, 1}, Table: TGrowArmed, Threads: [][]MIn{{on(opStore, 0)}, {on(b, 1)}}, ExpectGrow: true})
		}
	}
	return out
}

func toScenarios(ms []*MapScen) []*Scenario {
	out := make([]*Scenario, len(ms))
	for i, m := range ms {
		out[i] = m.Scenario()
	}
	return out
}

func init() {
	scenarioGens["C03"] = func(tier string) []*Scenario {
		lvl := 0
		if tier == "thorough" {
			lvl = 1
		}
		return toScenarios(genMapFamilies(genCfg{prop: "C03", classes: OLin}, CMap, lvl, true))
	}
	scenarioGens["C04"] = func(tier string) []*Scenario {
		lvl := 0
		if tier == "thorough" {
			lvl = 1
		}
		g := genCfg{prop: "C04", classes: OLin}
		ms := genMapFamilies(g, CMapOfInt, 1+lvl, true) // MapOf scenarios are cheap: the quick tier runs the full family set (thorough: + four threads)
		ms = append(ms, genMapFamilies(g, CMapOfStr, lvl, lvl >= 1)...)
		ms = append(ms, genMapFamilies(g, CMapOfStruct, lvl, lvl >= 1)...)
		return toScenarios(ms)
	}
}
