package main

import (
	"fmt"
	"math"
	"reflect"
	"sort"
	"strings"
	"time"

	cache "github.com/fufuok/cache"
	vtime "github.com/fufuok/cache/internal/vshim/time"
)

// ---- C01, value kinds: "reports for a key exactly the most recently stored value" for values the tiny
// integer alphabets of the sequence search do not contain: nil, typed nil pointers, functions, maps and
// slices (not comparable: any == on values inside the library panics), NaN, padded structs, channels. A
// finite catalogue: value kind x storing call x reading call, Cache and CacheOf[string, interface{}].

type anyCache interface {
	Set(k string, v interface{}, d time.Duration)
	SetDefault(k string, v interface{})
	SetForever(k string, v interface{})
	Get(k string) (interface{}, bool)
	GetWithExpiration(k string) (interface{}, time.Time, bool)
	GetWithTTL(k string) (interface{}, time.Duration, bool)
	GetOrSet(k string, v interface{}, d time.Duration) (interface{}, bool)
	GetAndSet(k string, v interface{}, d time.Duration) (interface{}, bool)
	GetAndRefresh(k string, d time.Duration) (interface{}, bool)
	GetOrCompute(k string, f func() interface{}, d time.Duration) (interface{}, bool)
	GetAndDelete(k string) (interface{}, bool)
	Delete(k string)
	DeleteExpired()
	Range(f func(k string, v interface{}) bool)
	Items() map[string]interface{}
	Count() int
}

func sameValue(a, b interface{}) bool {
	if a == nil || b == nil {
		return a == nil && b == nil
	}
	va, vb := reflect.ValueOf(a), reflect.ValueOf(b)
	if va.Type() != vb.Type() {
		return false
	}
	switch va.Kind() {
	case reflect.Func, reflect.Map, reflect.Slice, reflect.Chan, reflect.Ptr, reflect.UnsafePointer:
		return va.Pointer() == vb.Pointer()
	case reflect.Float64:
		return va.Float() == vb.Float() || (math.IsNaN(va.Float()) && math.IsNaN(vb.Float()))
	}
	return reflect.DeepEqual(a, b)
}

func c01ValueKinds() ([]Finding, int) {
	type padded struct {
		A int8
		B int64
	}
	x := 7
	values := []struct {
		name string
		v    interface{}
	}{
		{"nil", nil}, {"typed nil pointer", (*int)(nil)}, {"pointer", &x}, {"func", func() {}}, {"map", map[string]int{"a": 1}},
		{"slice", []int{1, 2}}, {"empty slice", []int{}}, {"NaN", math.NaN()}, {"padded struct", padded{1, 2}}, {"chan", make(chan int)},
		{"string", "s"}, {"empty string", ""}, {"error value", fmt.Errorf("e")},
	}
	stores := []string{"Set", "SetDefault", "SetForever", "GetOrSet", "GetAndSet", "GetOrCompute", "GetAndSet over a value of the same kind"}
	var out []Finding
	seen := map[string]bool{}
	n := 0
	valueKindWhat = map[string][2]string{}
	for twin := 0; twin < 2; twin++ {
		for _, val := range values {
			for _, st := range stores {
				n++
				problem := func() (p string) {
					defer func() {
						if r := recover(); r != nil {
							p = fmt.Sprintf("panic: %v", r)
						}
					}()
					vtime.VEnable(epochNs)
					installCacheLayout(nil)
					var fired []interface{}
					var c anyCache
					if twin == 0 {
						c = cache.New(cache.WithCleanupInterval(0), cache.WithEvictedCallback(func(k string, v interface{}) { fired = append(fired, v) }))
					} else {
						c = cache.NewOf[string, interface{}](cache.WithCleanupIntervalOf[string, interface{}](0),
							cache.WithEvictedCallbackOf[string, interface{}](func(k string, v interface{}) { fired = append(fired, v) }))
					}
					v := val.v
					switch st {
					case "Set":
						c.Set("k", v, 5)
					case "SetDefault":
						c.SetDefault("k", v)
					case "SetForever":
						c.SetForever("k", v)
					case "GetOrSet":
						if got, loaded := c.GetOrSet("k", v, 5); loaded || !sameValue(got, v) {
							return fmt.Sprintf("GetOrSet on an absent key returned (%v,%v)", got, loaded)
						}
					case "GetAndSet":
						c.GetAndSet("k", v, 5)
					case "GetOrCompute":
						if got, loaded := c.GetOrCompute("k", func() interface{} { return v }, 5); loaded || !sameValue(got, v) {
							return fmt.Sprintf("GetOrCompute on an absent key returned (%v,%v)", got, loaded)
						}
					default:
						c.Set("k", v, 5)
						if old, loaded := c.GetAndSet("k", v, 5); !loaded || !sameValue(old, v) {
							return fmt.Sprintf("GetAndSet over the value returned (%v,%v)", old, loaded)
						}
					}
					if got, ok := c.Get("k"); !ok || !sameValue(got, v) {
						return fmt.Sprintf("Get returned (%v,%v)", got, ok)
					}
					if got, _, ok := c.GetWithExpiration("k"); !ok || !sameValue(got, v) {
						return fmt.Sprintf("GetWithExpiration returned (%v,%v)", got, ok)
					}
					if got, _, ok := c.GetWithTTL("k"); !ok || !sameValue(got, v) {
						return fmt.Sprintf("GetWithTTL returned (%v,%v)", got, ok)
					}
					if got, ok := c.GetAndRefresh("k", 5); !ok || !sameValue(got, v) {
						return fmt.Sprintf("GetAndRefresh returned (%v,%v)", got, ok)
					}
					if got, loaded := c.GetOrSet("k", "other", 5); !loaded || !sameValue(got, v) {
						return fmt.Sprintf("GetOrSet on the present key returned (%v,%v)", got, loaded)
					}
					visits := 0
					c.Range(func(k string, got interface{}) bool {
						visits++
						if !sameValue(got, v) {
							visits = -100
						}
						return true
					})
					if visits != 1 {
						return "Range did not visit exactly that value once"
					}
					if it := c.Items(); len(it) != 1 || !sameValue(it["k"], v) {
						return fmt.Sprintf("Items returned %v", it)
					}
					if got, ok := c.GetAndDelete("k"); !ok || !sameValue(got, v) {
						return fmt.Sprintf("GetAndDelete returned (%v,%v)", got, ok)
					}
					if len(fired) != 1 || !sameValue(fired[0], v) {
						return fmt.Sprintf("evicted callback deliveries after GetAndDelete: %v", fired)
					}
					// the same value expiring and being cleaned up
					c.Set("k", v, 1)
					vtime.VAdvance(2)
					if got, ok := c.Get("k2"); ok || got != nil {
						return fmt.Sprintf("Get of an absent key returned (%v,%v)", got, ok)
					}
					c.DeleteExpired()
					if len(fired) != 2 || !sameValue(fired[1], v) || c.Count() != 0 {
						return fmt.Sprintf("after the cleanup pass: deliveries %v, Count %d", fired, c.Count())
					}
					// the value stored over itself by every storing call (an "unchanged?" shortcut would compare values)
					c.SetForever("k", v)
					c.SetForever("k", v)
					c.Set("k", v, -1)
					c.SetDefault("k", v)
					if old, loaded := c.GetAndSet("k", v, 0); !loaded || !sameValue(old, v) {
						return fmt.Sprintf("GetAndSet over the same value returned (%v,%v)", old, loaded)
					}
					if got, loaded := c.GetOrCompute("k", func() interface{} { return "other" }, 0); !loaded || !sameValue(got, v) {
						return fmt.Sprintf("GetOrCompute on the present key returned (%v,%v)", got, loaded)
					}
					if got, ok := c.Get("k"); !ok || !sameValue(got, v) || c.Count() != 1 {
						return fmt.Sprintf("Get after storing the value over itself returned (%v,%v), Count %d", got, ok, c.Count())
					}
					return ""
				}()
				if problem != "" {
					what := problem
					if i := len("panic"); len(what) >= i && what[:i] == "panic" {
						what = "the call panics"
					} else if j := indexOf(what, " returned"); j > 0 {
						what = what[:j] + " does not return the stored value"
					}
					w := valueKindWhat[val.name+" stored by "+st]
					w[twin] = what
					valueKindWhat[val.name+" stored by "+st] = w
					sig := fmt.Sprintf("value kind %s stored by %s: %s", val.name, st, what)
					if !seen[sig] {
						seen[sig] = true
						out = append(out, Finding{Property: "C01", Signature: sig, Detail: fmt.Sprintf("%s, value kind %s, stored by %s: %s", twinNames[twin], val.name, st, problem),
							Replay: map[string]interface{}{"engine": "C01values"}})
					}
				}
			}
		}
	}
	// key shapes outside the alphabets of the sequence search: the empty key, long keys with a long common
	// prefix, a 1000-byte key - each holds its own value, whichever of them are deleted or expire
	long := strings.Repeat("0123456789", 4)
	keys := []string{"", "k", long + "1", long + "2", "1" + long, strings.Repeat("z", 1000), strings.Repeat("z", 1001)}
	for twin := 0; twin < 2; twin++ {
		n++
		problem := func() (p string) {
			defer func() {
				if r := recover(); r != nil {
					p = fmt.Sprintf("panic: %v", r)
				}
			}()
			vtime.VEnable(epochNs)
			installCacheLayout(nil)
			var c anyCache
			if twin == 0 {
				c = cache.New(cache.WithCleanupInterval(0))
			} else {
				c = cache.NewOf[string, interface{}](cache.WithCleanupIntervalOf[string, interface{}](0))
			}
			for i, k := range keys {
				d := time.Duration(0)
				if i%2 == 1 {
					d = 5
				}
				c.Set(k, i, d)
			}
			check := func(stage string, gone map[int]bool) string {
				for i, k := range keys {
					v, ok := c.Get(k)
					if gone[i] != !ok || (ok && v != i) {
						return fmt.Sprintf("%s: Get(key #%d, %d bytes) = (%v,%v)", stage, i, len(k), v, ok)
					}
				}
				it := c.Items()
				if len(it) != len(keys)-len(gone) {
					return fmt.Sprintf("%s: Items has %d entries, want %d", stage, len(it), len(keys)-len(gone))
				}
				for i, k := range keys {
					if v, ok := it[k]; ok == gone[i] || (ok && v != i) {
						return fmt.Sprintf("%s: Items[key #%d] = (%v,%v)", stage, i, v, ok)
					}
				}
				return ""
			}
			if p := check("after storing", map[int]bool{}); p != "" {
				return p
			}
			c.Delete("")
			c.Delete(long + "2")
			if p := check("after deleting two keys", map[int]bool{0: true, 3: true}); p != "" {
				return p
			}
			vtime.VAdvance(6)
			if p := check("after the odd keys expired", map[int]bool{0: true, 1: true, 3: true, 5: true}); p != "" {
				return p
			}
			c.DeleteExpired()
			if c.Count() != 3 {
				return fmt.Sprintf("Count after the cleanup pass = %d, want 3", c.Count())
			}
			return ""
		}()
		if problem != "" {
			sig := "key shapes (empty, long common prefix, 1000 bytes): " + strings.SplitN(problem, ":", 2)[0]
			if !seen[sig] {
				seen[sig] = true
				out = append(out, Finding{Property: "C01", Signature: sig, Detail: twinNames[twin] + ": " + problem, Replay: map[string]interface{}{"engine": "C01values"}})
			}
		}
	}
	return out, n
}

// valueKindWhat: per catalogue case, what went wrong on each twin ("" = nothing); filled by c01ValueKinds.
var valueKindWhat map[string][2]string

// c12ValueKinds: the twins behave alike on every case of the value-kind catalogue.
func c12ValueKinds() ([]Finding, int) {
	_, n := c01ValueKinds()
	var out []Finding
	var cases []string
	for c := range valueKindWhat {
		cases = append(cases, c)
	}
	sort.Strings(cases)
	for _, c := range cases {
		if w := valueKindWhat[c]; w[0] != w[1] {
			out = append(out, Finding{Property: "C12", Signature: "value kind " + c + ": Cache and CacheOf[string,interface{}] behave differently",
				Detail: fmt.Sprintf("Cache: %q; CacheOf[string,interface{}]: %q", w[0], w[1]), Replay: map[string]interface{}{"engine": "C12values"}})
		}
	}
	return out, n
}

func indexOf(s, sub string) int {
	for i := 0; i+len(sub) <= len(s); i++ {
		if s[i:i+len(sub)] == sub {
			return i
		}
	}
	return -1
}
