package main

import (
	"fmt"
	"sort"
	"strings"
	"time"

	vtime "github.com/fufuok/cache/internal/vshim/time"
	"github.com/fufuok/cache/internal/xsync"
)

// ---- C12: Cache vs CacheOf[string,interface{}] and Map vs MapOf[string,interface{}] are
// observationally identical: product (lock-step) exploration of the two twins ----

type twinCacheInst struct {
	a, b   CacheLike
	la, lb *ledger
	m      CState // reference model: used only to build the canonical state key
	events []CIn
	log    []string
}

func (t *twinCacheInst) Apply(ev int, check bool) (string, string) {
	in := t.events[ev]
	var ga, gb COut
	if in.Op == CAdvance {
		vtime.VAdvance(in.D)
	} else {
		ga = execCacheOp(t.a, in, t.la, nil)
		gb = execCacheOp(t.b, in, t.lb, nil)
	}
	_, ns := cacheApply(t.m, in)
	t.m = ns
	pa := t.a.Physical()
	for k := 0; k < NKC; k++ {
		if _, has := pa[k]; !has {
			t.m.Ent[k] = CEntry{}
		} else if !t.m.Ent[k].P && pa[k].E >= 0 {
			// the model is only a key: keep it in step with what twin A really holds
			t.m.Ent[k] = CEntry{V: int32(pa[k].V), E: pa[k].E, P: true}
		}
	}
	if !check {
		return "", ""
	}
	t.log = append(t.log, fmt.Sprintf("%v -> Cache: %v | CacheOf: %v", in, ga, gb))
	if ga != gb {
		return fmt.Sprintf("%s: Cache and CacheOf[string,interface{}] return different results (%s)", in.Op, diffFields(ga, gb)),
			fmt.Sprintf("call %v: Cache %v, CacheOf %v", in, ga, gb)
	}
	pb := t.b.Physical()
	if fmt.Sprint(sortPhys(pa)) != fmt.Sprint(sortPhys(pb)) {
		return fmt.Sprintf("%s: Cache and CacheOf[string,interface{}] hold different contents", in.Op), fmt.Sprintf("after %v: Cache %v, CacheOf %v", in, sortPhys(pa), sortPhys(pb))
	}
	if ca, cb := t.a.Count(), t.b.Count(); ca != cb {
		return fmt.Sprintf("%s: Count differs between the twins", in.Op), fmt.Sprintf("after %v: %d vs %d", in, ca, cb)
	}
	if da, db := t.a.DefaultExpiration(), t.b.DefaultExpiration(); da != db {
		return fmt.Sprintf("%s: DefaultExpiration differs between the twins", in.Op), fmt.Sprintf("after %v: %v vs %v", in, da, db)
	}
	if t.a.HasEvictedCallback() != t.b.HasEvictedCallback() {
		return fmt.Sprintf("%s: EvictedCallback() differs between the twins", in.Op), ""
	}
	return "", ""
}

func sortPhys(m map[int]PhysEntry) []string {
	var s []string
	for k, e := range m {
		if k < NKC {
			s = append(s, fmt.Sprintf("k%d=(%d,%d)", k, e.V, e.E))
		}
	}
	sort.Strings(s)
	return s
}

func (t *twinCacheInst) Key() string   { return relKey(&t.m) + fmt.Sprint(t.a.HasEvictedCallback()) }
func (t *twinCacheInst) Log() []string { return append([]string{}, t.log...) }
func (t *twinCacheInst) Close() {
	t.la.c, t.lb.c = nil, nil
	t.a, t.b = nil, nil
}

func twinCacheSpec(name string, cfg CacheCfg, cbAtStart bool, events []CIn, depth int) *SeqSpec {
	names := make([]string, len(events))
	for i, e := range events {
		names[i] = e.String()
	}
	return &SeqSpec{Name: name, Events: names, MaxDepth: depth, New: func() SeqInst {
		vtime.VEnable(epochNs)
		vtime.VCaptureTickers(true)
		installDetHash(7)
		la, lb := &ledger{}, &ledger{}
		ca, cb := cfg, cfg
		ca.Twin, cb.Twin = 0, 1
		if cbAtStart {
			ca.Callback, cb.Callback = la.cb(1), lb.cb(1)
		}
		a, b := newCache(ca), newCache(cb)
		la.c, lb.c = a, b
		m := CState{Now: epochNs, Def: a.DefaultExpiration()}
		if cbAtStart {
			m.CB = 1
		}
		return &twinCacheInst{a: a, b: b, la: la, lb: lb, m: m, events: events}
	}}
}

// ---- Map vs MapOf[string,interface{}] ----

type twinMapInst struct {
	a, b   MapLike
	events []MIn
	log    []string
	bulk   bool
}

func newMapOfStrAny(opts ...func(*xsync.MapConfig)) MapLike {
	return mapOfAdapter[string, interface{}]{
		m:   xsync.NewMapOf[string, interface{}](opts...),
		toK: keyName, fromK: keyIndex, toV: boxV, fromV: unboxV,
	}
}

const (
	MBulkInsert MOp = 100 + iota
	MBulkDelete
)

func (t *twinMapInst) Apply(ev int, check bool) (string, string) {
	in := t.events[ev]
	var ga, gb interface{}
	switch in.Op {
	case MBulkInsert:
		for i := 0; i < 400; i++ {
			t.a.Store(1000+i, 5000+i)
			t.b.Store(1000+i, 5000+i)
		}
		t.bulk = true
	case MBulkDelete:
		for i := 0; i < 400; i++ {
			t.a.Delete(1000 + i)
			t.b.Delete(1000 + i)
		}
		t.bulk = false
	case MRange:
		ga, gb = rangeSorted(t.a), rangeSorted(t.b)
	default:
		ga = execMapOp(t.a, in, nil, 0, nil)
		gb = execMapOp(t.b, in, nil, 0, nil)
		if in.Op == MClear {
			t.bulk = false
		}
	}
	if !check {
		return "", ""
	}
	t.log = append(t.log, fmt.Sprintf("%v -> Map: %v | MapOf: %v", in, ga, gb))
	if fmt.Sprint(ga) != fmt.Sprint(gb) {
		return fmt.Sprintf("%s: Map and MapOf[string,interface{}] return different results", mopName(in.Op)), fmt.Sprintf("call %v: Map %v, MapOf %v", in, ga, gb)
	}
	if sa, sb := t.a.Size(), t.b.Size(); sa != sb {
		return fmt.Sprintf("%s: Size differs between the twins", mopName(in.Op)), fmt.Sprintf("after %v: %d vs %d", in, sa, sb)
	}
	if ra, rb := rangeSorted(t.a), rangeSorted(t.b); ra != rb {
		return fmt.Sprintf("%s: contents differ between the twins", mopName(in.Op)), fmt.Sprintf("after %v: %s vs %s", in, ra, rb)
	}
	return "", ""
}

func mopName(o MOp) string {
	switch o {
	case MBulkInsert:
		return "BulkInsert"
	case MBulkDelete:
		return "BulkDelete"
	}
	return mopNames[o]
}

func rangeSorted(m MapLike) string {
	var s []string
	n := 0
	m.Range(func(k, v int) bool {
		if k < 100 {
			s = append(s, fmt.Sprintf("k%d=%d", k, v))
		} else {
			n++
		}
		return true
	})
	sort.Strings(s)
	return strings.Join(s, " ") + fmt.Sprintf(" +%d", n)
}

func (t *twinMapInst) Key() string   { return rangeSorted(t.a) }
func (t *twinMapInst) Log() []string { return append([]string{}, t.log...) }
func (t *twinMapInst) Close()        {}

func twinMapSpec(name string, hint int, prefill int, level int) *SeqSpec {
	var events []MIn
	keys := []int{0, 1}
	for _, k := range keys {
		events = append(events, MIn{Op: MLoad, K: k})
	}
	events = append(events, MIn{Op: MRange}, MIn{Op: MClear})
	for _, k := range keys {
		events = append(events, MIn{Op: MDelete, K: k}, MIn{Op: MLoadAndDelete, K: k})
		for _, v := range []int{0, 1, 2} { // 0 = nil value
			events = append(events, MIn{Op: MStore, K: k, V: v}, MIn{Op: MLoadOrStore, K: k, V: v}, MIn{Op: MLoadAndStore, K: k, V: v},
				MIn{Op: MLoadOrCompute, K: k, V: v}, MIn{Op: MCompute, K: k, V: v, Fn: FnSet})
		}
		events = append(events, MIn{Op: MCompute, K: k, V: 7, Fn: FnDel}, MIn{Op: MCompute, K: k, V: 7, Fn: FnDelIfPresent},
			MIn{Op: MCompute, K: k, V: 7, Fn: FnSetIfAbsent}, MIn{Op: MCompute, K: k, V: 7, Fn: FnInc})
	}
	events = append(events, MIn{Op: MBulkInsert}, MIn{Op: MBulkDelete})
	names := make([]string, len(events))
	for i, e := range events {
		names[i] = e.String()
		if e.Op >= MBulkInsert {
			names[i] = mopName(e.Op)
		}
	}
	depth := 4
	if level >= 1 {
		depth = 5
	}
	return &SeqSpec{Name: name, Events: names, MaxDepth: depth, New: func() SeqInst {
		var a, b MapLike
		if prefill < 0 {
			installDetHash(uint64(hint) * 1000)
		} else {
			// all alphabet keys and prefill fillers share one root bucket: the chain-full paths
			// (3 slots per bucket in Map, 5 in MapOf) are reached at different moments in the twins
			lay := layoutFor(RelSD)
			installCacheLayout(&lay)
		}
		if hint == 0 {
			a, b = mapAdapter{m: xsync.NewMap()}, newMapOfStrAny()
		} else {
			a, b = mapAdapter{m: xsync.NewMap(xsync.WithPresize(hint))}, newMapOfStrAny(xsync.WithPresize(hint))
		}
		for j := 0; j < prefill; j++ {
			a.Store(fillTarget+j, 1000+j)
			b.Store(fillTarget+j, 1000+j)
		}
		return &twinMapInst{a: a, b: b, events: events}
	}}
}

func genC12(tier string) []*Scenario {
	lvl := lvlOf(tier)
	var out []*Scenario
	// cache twins: the C01 alphabet (fixpoint) ...
	for _, cb := range []bool{false, true} {
		// (the quick alphabet also in the thorough tier: the product with the 7-TTL alphabet does not reach
		// its fixpoint within the budget; the thorough tier adds the bulk macro events instead)
		ev := cacheAlphabet(0, cb)
		if lvl >= 1 {
			ev = append(ev, CIn{Op: CBulkInsert}, CIn{Op: CBulkDelete}, CIn{Op: CSet, K: 0, V: 1, D: 5})
		}
		// ... extended with nil values
		ev = append(ev, CIn{Op: CSet, K: 0, V: 0, D: durNoExp}, CIn{Op: CGetOrSet, K: 1, V: 0, D: 2}, CIn{Op: CCompute, K: 0, V: 0, Fn: FnSet, D: durNoExp})
		name := fmt.Sprintf("C12/twins/Cache~CacheOf/callback=%v", cb)
		out = append(out, &Scenario{Name: name, Prop: "C12", Seq: twinCacheSpec(name, CacheCfg{HasIvl: true, Ivl: 0}, cb, ev, 0), ExpectOutcomes: 2})
	}
	// ... and the C09 TTL alphabet from every constructor variant (depth bounded)
	depth := 3
	if lvl >= 1 {
		depth = 4
	}
	for _, d := range []time.Duration{durNoExp, durDef, 0, 1, 2, time.Hour} {
		for _, cfg := range []CacheCfg{{HasDef: true, Def: d}, {UseDefault: true, Def: d, Ivl: 0}, {HasDef: true, Def: d, HasIvl: true, Ivl: -1, HasMinCap: true, MinCap: 500}} {
			name := "C12/twins/Cache~CacheOf/" + cfg.String()
			out = append(out, &Scenario{Name: name, Prop: "C12", Seq: twinCacheSpec(name, cfg, false, c09Alphabet(lvl), depth), ExpectOutcomes: 2})
		}
	}
	out = append(out, &Scenario{Name: "C12/twins/Cache~CacheOf/New()", Prop: "C12", Seq: twinCacheSpec("C12/twins/Cache~CacheOf/New()", CacheCfg{}, false, c09Alphabet(lvl), depth), ExpectOutcomes: 2})
	// map twins
	for _, hint := range []int{0, -5, 97, 1000} {
		name := fmt.Sprintf("C12/twins/Map~MapOf/presize=%d", hint)
		out = append(out, &Scenario{Name: name, Prop: "C12", Seq: twinMapSpec(name, hint, -1, lvl), ExpectOutcomes: 2})
	}
	for _, prefill := range []int{0, 2, 3, 5, 6, 9, 10} {
		name := fmt.Sprintf("C12/twins/Map~MapOf/one-bucket/prefill=%d", prefill)
		out = append(out, &Scenario{Name: name, Prop: "C12", Seq: twinMapSpec(name, 0, prefill, lvl), ExpectOutcomes: 2})
	}
	return out
}

func init() {
	scenarioGens["C12"] = genC12
	replayers["C12values"] = func(path, prop string, payload map[string]interface{}) int {
		f, _ := c12ValueKinds()
		for _, x := range f {
			fmt.Printf("VIOLATION property=C12 replay=%s\n  %s\n  %s\n", path, x.Signature, x.Detail)
		}
		if len(f) > 0 {
			return 1
		}
		fmt.Println("no violation")
		return 0
	}
	checks["C12"] = func(rc *runCtx) int {
		extraFindings = func(cov map[string]interface{}) []Finding {
			f, n := c12ValueKinds()
			cov["value_kind_scripts_compared_between_twins"] = n
			return f
		}
		return runE1Check(rc, []string{
			"both twins are driven in lock-step by the same event sequence under one virtual clock; every return value, callback ledger, Items/Range multiset, Count/Size, DefaultExpiration() and the physical contents are compared pairwise",
			"alphabets: the C01 call alphabet (to the fixpoint of the canonical state space, with and without callbacks, with nil values) and the C09 TTL alphabet from every constructor variant (depth bounded); Map vs MapOf[string,interface{}] over all single-key calls on 2 keys with nil and non-nil values plus bulk insert/delete macro events crossing grow/shrink thresholds",
			"a divergence where both twins are wrong in the same way is invisible here (C01/C09/C11 cover that)",
		}, nil)
	}
}
