package main

// Scenario generators for the cache-level concurrent properties (C02, C06 and
// the cache parts of C05, C07, C08, C13, C16).

var (
	cSet     = CIn{Op: CSet, D: durNoExp}
	cSetTTL  = CIn{Op: CSet, D: 50}
	cGet     = CIn{Op: CGet}
	cGetTTL  = CIn{Op: CGetWithTTL}
	cGetExp  = CIn{Op: CGetWithExpiration}
	cGoS     = CIn{Op: CGetOrSet, D: durNoExp}
	cGaS     = CIn{Op: CGetAndSet, D: durNoExp}
	cGaR     = CIn{Op: CGetAndRefresh, D: 50}
	cGoC     = CIn{Op: CGetOrCompute, D: durNoExp}
	cCSet    = CIn{Op: CCompute, Fn: FnSet, D: durNoExp}
	cCDel    = CIn{Op: CCompute, Fn: FnDel, D: durNoExp}
	cCInc    = CIn{Op: CCompute, Fn: FnInc, D: durNoExp}
	cGaD     = CIn{Op: CGetAndDelete}
	cDelete  = CIn{Op: CDelete}
	cDelExp  = CIn{Op: CDeleteExpired}
	cClear   = CIn{Op: CClear}
	cRange   = CIn{Op: CRange}
	cCount   = CIn{Op: CCount}
	cacheOps = []CIn{cSet, cSetTTL, cGet, cGetTTL, cGoS, cGaS, cGaR, cGoC, cCSet, cCDel, cGaD, cDelete, cDelExp, cClear, cRange}
)

func con(op CIn, k int) CIn { op.K = k; return op }

func cacheScenarios(cs []*CacheScen, prop string, classes int, checkFn bool) []*Scenario {
	out := make([]*Scenario, len(cs))
	for i, c := range cs {
		c.Prop, c.Classes, c.CheckFn = prop, classes, checkFn
		out[i] = c.Scenario()
	}
	return out
}

func genC02(level int) []*CacheScen {
	var out []*CacheScen
	twins := []int{0, 1}
	for _, tw := range twins {
		add := func(cs *CacheScen) { cs.Twin = tw; out = append(out, cs) }
		// all unordered pairs of calls on one key, the key absent / live / live with ttl / expired-uncleaned
		for i, a := range cacheOps {
			for j, b := range cacheOps {
				if j < i {
					continue
				}
				for _, ini := range []int{IAbsent, ILive, ILiveTTL, IExpired} {
					if ini == ILiveTTL && level == 0 && !(a.Op == CGetAndRefresh || b.Op == CGetAndRefresh || a.Op == CGetWithTTL || b.Op == CGetWithTTL) {
						continue
					}
					add(&CacheScen{Rel: RelSS, NKeys: 2, Init: []int{ini, IAbsent}, Table: TPlain, Threads: [][]CIn{{con(a, 0)}, {con(b, 0)}}})
				}
			}
		}
		// Clear against two completed writes of one thread to an early and a late bucket (either order): Clear is
		// one atomic step, it cannot drop the later write and spare the earlier one
		for _, rel := range []KeyRel{RelLate, RelDD} {
			for _, w := range []CIn{cSet, cGoS} {
				for _, ini := range []int{IAbsent, ILive} {
					add(&CacheScen{Rel: rel, NKeys: 2, Init: []int{ini, ini}, Table: TPlain, Threads: [][]CIn{{cClear}, {con(w, 0), con(w, 1)}}})
					add(&CacheScen{Rel: rel, NKeys: 2, Init: []int{ini, ini}, Table: TPlain, Threads: [][]CIn{{cClear}, {con(w, 1), con(w, 0)}}})
				}
			}
		}
		// the remaining methods of the API (thin variants of the ones above) against a selection of partners
		for _, a := range []CIn{{Op: CSetDefault}, {Op: CSetForever}, cGetExp, {Op: CItems}} {
			for _, b := range []CIn{cSet, cSetTTL, cGaD, cDelExp, cGaR} {
				for _, ini := range []int{ILive, IExpired} {
					add(&CacheScen{Rel: RelSS, NKeys: 2, Init: []int{ini, IAbsent}, Table: TPlain, Threads: [][]CIn{{con(a, 0)}, {con(b, 0)}}})
				}
			}
		}
		// the same pairs (a selection) on a cache with a history: grown, shrunk back, cleaned up once
		for _, a := range []CIn{cSet, cGaS, cGaR, cGaD, cDelExp, cClear} {
			for _, b := range []CIn{cGet, cSetTTL, cGoS, cCDel, cDelete, cDelExp, cRange} {
				for _, ini := range []int{ILive, IExpired} {
					add(&CacheScen{Rel: RelSS, NKeys: 2, Init: []int{ini, IAbsent}, Table: TPlain, Warm: true, Threads: [][]CIn{{con(a, 0)}, {con(b, 0)}}})
				}
			}
		}
		// an entry is stored and expires (the clock moves) while another call is in flight: the cleanup pass
		// that starts afterwards must remove it whatever else is running (checked by the quiescent Count)
		for _, x := range []CIn{cDelExp, con(cGet, 0), con(cDelete, 0), cRange, con(cGoS, 1)} {
			for _, ini := range []int{IExpired, ILive} {
				for _, rel := range []KeyRel{RelSS, RelDD} {
					add(&CacheScen{Rel: rel, NKeys: 2, Init: []int{ini, IAbsent}, Table: TPlain, Threads: [][]CIn{{x}, {con(CIn{Op: CSet, D: 2}, 1), {Op: CAdvance, D: 3}, cDelExp}}})
				}
			}
		}
		// bucket mates: one expired, the other written
		for _, a := range []CIn{cSet, cDelete, cGoS, cDelExp, cGaD} {
			for _, b := range []CIn{cSet, cDelete, cGoS, cGet} {
				add(&CacheScen{Rel: RelSS, NKeys: 2, Init: []int{IExpired, ILive}, Table: TPlain, Threads: [][]CIn{{con(a, 0)}, {con(b, 1)}}})
				add(&CacheScen{Rel: RelSS, NKeys: 2, Init: []int{IExpired, IExpired}, Table: TPlain, Threads: [][]CIn{{con(a, 0)}, {con(b, 1)}}})
			}
		}
		// a reader then a writer in one thread against a cleanup pass (lazy delete re-validation)
		add(&CacheScen{Rel: RelSS, NKeys: 2, Init: []int{IExpired, IAbsent}, Table: TPlain, Threads: [][]CIn{{con(cGet, 0), con(cSet, 0)}, {cDelExp}}})
		add(&CacheScen{Rel: RelSS, NKeys: 2, Init: []int{IExpired, IAbsent}, Table: TPlain, Threads: [][]CIn{{con(cSet, 0), con(cGet, 0)}, {cDelExp}}})
		add(&CacheScen{Rel: RelSS, NKeys: 2, Init: []int{IExpired, IAbsent}, Table: TPlain, Threads: [][]CIn{{con(cSet, 0)}, {con(cGet, 0), con(cGet, 0)}}})
		// the default expiration is changed while stores that use it run: every entry gets exactly the
		// default in force at some moment of its call (the quiescent epilogue reads the stored instants)
		for _, sd := range []CIn{{Op: CSetDefaultExpiration, D: durNoExp}, {Op: CSetDefaultExpiration, D: 70}} {
			for _, st := range []CIn{{Op: CSetDefault}, {Op: CSet, D: durDef}, {Op: CGetOrSet, D: durDef}, {Op: CGetAndSet, D: durDef}, {Op: CGetAndRefresh, D: durDef}, {Op: CGetOrCompute, D: durDef}, {Op: CCompute, Fn: FnSet, D: durDef}} {
				for _, ini := range []int{IAbsent, ILive} {
					add(&CacheScen{Rel: RelSS, NKeys: 2, Init: []int{ini, IAbsent}, Table: TPlain, Def: 50, Threads: [][]CIn{{sd}, {con(st, 0)}}})
				}
			}
		}
		// the table grows (one caller inserts into a full chain above the load factor) while another call runs
		for _, b := range []CIn{cSet, cGoS, cDelete, cGet, cDelExp} {
			if level == 0 && tw == 1 && b.Op == CDeleteExpired {
				continue
			}
			add(&CacheScen{Rel: RelDD, NKeys: 2, Init: []int{IAbsent, ILive}, Table: TGrowArmed, Threads: [][]CIn{{con(cSet, 0)}, {con(b, 1)}}})
			add(&CacheScen{Rel: RelSD, NKeys: 2, Init: []int{IAbsent, IAbsent}, Table: TGrowArmed, Threads: [][]CIn{{con(cSet, 0)}, {con(b, 1)}}})
		}
		if level >= 1 {
			// three callers on one key
			red := []CIn{cSet, cGet, cGoS, cDelete, cDelExp, cGaR}
			for i, a := range red {
				for j, b := range red {
					for k, c3 := range red {
						if j < i || k < j {
							continue
						}
						for _, ini := range []int{IAbsent, ILive, IExpired} {
							add(&CacheScen{Rel: RelSS, NKeys: 2, Init: []int{ini, IAbsent}, Table: TPlain, Threads: [][]CIn{{con(a, 0)}, {con(b, 0)}, {con(c3, 0)}}})
						}
					}
				}
			}
			// table grows while a cleanup pass / other writers run
			for _, b := range []CIn{cDelExp, cSet, cGoS, cDelete, cClear} {
				add(&CacheScen{Rel: RelDD, NKeys: 2, Init: []int{IAbsent, IExpired}, Table: TGrowArmed, Threads: [][]CIn{{con(cSet, 0)}, {con(b, 1)}}})
				add(&CacheScen{Rel: RelDD, NKeys: 2, Init: []int{IAbsent, ILive}, Table: TGrowArmed, Threads: [][]CIn{{con(cSet, 0)}, {con(b, 1)}}})
			}
			add(&CacheScen{Rel: RelDD, NKeys: 3, Init: []int{IAbsent, IExpired, IAbsent}, Table: TGrowArmed, Bound: 2, Threads: [][]CIn{{con(cSet, 0)}, {con(cSet, 1)}, {cDelExp}}})
		}
	}
	return out
}

func init() {
	scenarioGens["C02"] = func(tier string) []*Scenario {
		return cacheScenarios(genC02(lvlOf(tier)), "C02", OLin, false)
	}
	checks["C02"] = func(rc *runCtx) int {
		return runE1Check(rc, append(append([]string{}, e1Assumptions...), "virtual clock frozen during the concurrent phase; janitor disabled (a DeleteExpired caller stands in for it: that is exactly what the janitor loop calls)"), nil)
	}
}
