package main

import (
	"fmt"
	"math"
	"os"
	"reflect"
	"strings"
	"time"
	"unsafe"

	cache "github.com/fufuok/cache"
	vtime "github.com/fufuok/cache/internal/vshim/time"
	"github.com/fufuok/cache/internal/xsync"
)

// ---- C10: keys are matched by Go equality for every comparable key type ----
//
// Exhaustive enumeration over a finite catalogue: for every key type, every
// ordered pair (x,y) of its domain values, every script, every hasher
// (default / constant / colliding in the bucket but not in the 7-bit tag) and
// both containers, the same script is run on a builtin map[K]int; every
// observation must agree and nothing may panic.

type c10Stats struct {
	types, pairs, runs, steps int
	findings                  []Finding
	seenSig                   map[string]bool
	samples                   []interface{}
}

type padded struct {
	A int8
	B int64
}
type strInt struct {
	S string
	N int
}
type nested struct {
	P padded
	S strInt
}
type fkey struct{ F float64 }
type boolPad struct {
	A bool
	N int32
	B bool
}
type ifaceField struct{ I interface{} }
type farr struct{ F [2]float64 }
type ptrShaped struct{ P *int }
type nestedStr struct {
	ID   int
	Name struct{ First, Last string }
}
type arrStr struct {
	ID   int
	Tags [2]string
}
type nestedF struct {
	Zoom int
	P    struct{ X, Y float64 }
}

// freshCopy returns a value equal to k (Go ==) in which every string has been re-allocated: equal keys
// whose strings live at different addresses must still be one key.
func freshCopy[K comparable](k K) K {
	c := k
	var walk func(v reflect.Value)
	walk = func(v reflect.Value) {
		switch v.Kind() {
		case reflect.String:
			if s := v.String(); s != "" {
				b := make([]byte, len(s))
				copy(b, s)
				reflect.NewAt(v.Type(), unsafe.Pointer(v.UnsafeAddr())).Elem().SetString(string(b))
			}
		case reflect.Struct:
			for i := 0; i < v.NumField(); i++ {
				walk(v.Field(i))
			}
		case reflect.Array:
			for i := 0; i < v.Len(); i++ {
				walk(v.Index(i))
			}
		case reflect.Interface:
			if !v.IsNil() && v.Elem().Kind() == reflect.String {
				s := v.Elem().String()
				b := make([]byte, len(s))
				copy(b, s)
				nv := reflect.New(v.Elem().Type()).Elem()
				nv.SetString(string(b))
				reflect.NewAt(v.Type(), unsafe.Pointer(v.UnsafeAddr())).Elem().Set(nv)
			}
		}
	}
	walk(reflect.ValueOf(&c).Elem())
	if c != k && k == k {
		panic("freshCopy: copy differs from the original")
	}
	return c
}

type stringer interface{ String() string }
type sval string

func (s sval) String() string { return string(s) }

type ival int

func (i ival) String() string { return fmt.Sprint(int(i)) }

// one observation sequence of a script
type obs []string

func runScript[K comparable](script int, x, y K, ops mapOps[K]) (o obs) {
	defer func() {
		if r := recover(); r != nil {
			o = append(o, fmt.Sprintf("PANIC: %v", r))
		}
	}()
	rec := func(f string, a ...interface{}) { o = append(o, fmt.Sprintf(f, a...)) }
	ops.store(x, 1)
	switch script {
	case 0:
		v, ok := ops.load(y)
		rec("load=%d,%v", v, ok)
	case 1:
		v, ok := ops.loadOrStore(y, 2)
		rec("loadOrStore=%d,%v size=%d", v, ok, ops.size())
	case 2:
		v, ok := ops.loadAndStore(y, 2)
		v2, ok2 := ops.load(x)
		rec("loadAndStore=%d,%v load(x)=%d,%v", v, ok, v2, ok2)
	case 3:
		ops.del(y)
		v, ok := ops.load(x)
		rec("after delete(y): load(x)=%d,%v size=%d", v, ok, ops.size())
	case 4:
		v, ok := ops.compute(y, func(old int, ld bool) (int, bool) { return old + 10, false })
		v2, ok2 := ops.load(x)
		rec("compute=%d,%v load(x)=%d,%v", v, ok, v2, ok2)
	case 6:
		v, ok := ops.loadAndDelete(y)
		v2, ok2 := ops.load(x)
		rec("loadAndDelete=%d,%v load(x)=%d,%v size=%d", v, ok, v2, ok2, ops.size())
	case 7:
		v, ok := ops.compute(y, func(old int, ld bool) (int, bool) { return 0, true })
		_, ok2 := ops.load(x)
		rec("compute(delete)=%d,%v load(x) ok=%v size=%d", v, ok, ok2, ops.size())
	case 5:
		ops.store(y, 2)
		n, sum := 0, 0
		ops.rng(func(k K, v int) bool {
			n++
			sum += v
			if k != x && k != y {
				sum += 1000
			}
			return true
		})
		rec("range n=%d sum=%d size=%d", n, sum, ops.size())
	}
	return o
}

type mapOps[K comparable] struct {
	store         func(K, int)
	load          func(K) (int, bool)
	loadOrStore   func(K, int) (int, bool)
	loadAndStore  func(K, int) (int, bool)
	del           func(K)
	loadAndDelete func(K) (int, bool)
	compute       func(K, func(int, bool) (int, bool)) (int, bool)
	rng           func(func(K, int) bool)
	size          func() int
}

func builtinOps[K comparable]() mapOps[K] {
	m := map[K]int{}
	return mapOps[K]{
		store: func(k K, v int) { m[k] = v },
		load:  func(k K) (int, bool) { v, ok := m[k]; return v, ok },
		loadOrStore: func(k K, v int) (int, bool) {
			if c, ok := m[k]; ok {
				return c, true
			}
			m[k] = v
			return v, false
		},
		loadAndStore: func(k K, v int) (int, bool) {
			c, ok := m[k]
			m[k] = v
			if ok {
				return c, true
			}
			return v, false
		},
		del: func(k K) { delete(m, k) },
		loadAndDelete: func(k K) (int, bool) {
			c, ok := m[k]
			delete(m, k)
			return c, ok
		},
		compute: func(k K, f func(int, bool) (int, bool)) (int, bool) {
			c, ok := m[k]
			nv, del := f(c, ok)
			if del {
				delete(m, k)
				return c, false
			}
			m[k] = nv
			return nv, true
		},
		rng: func(f func(K, int) bool) {
			for k, v := range m {
				if !f(k, v) {
					return
				}
			}
		},
		size: func() int { return len(m) },
	}
}

func mapOfOps[K comparable](m *xsync.MapOf[K, int]) mapOps[K] {
	return mapOps[K]{store: m.Store, load: m.Load, loadOrStore: m.LoadOrStore, loadAndStore: m.LoadAndStore, del: m.Delete, loadAndDelete: m.LoadAndDelete,
		compute: m.Compute, rng: m.Range, size: m.Size}
}

func cacheOfOps[K comparable](c cache.CacheOf[K, int]) mapOps[K] {
	return mapOps[K]{
		store:         func(k K, v int) { c.SetForever(k, v) },
		load:          c.Get,
		loadOrStore:   func(k K, v int) (int, bool) { return c.GetOrSet(k, v, cache.NoExpiration) },
		loadAndStore:  func(k K, v int) (int, bool) { return c.GetAndSet(k, v, cache.NoExpiration) },
		del:           c.Delete,
		loadAndDelete: c.GetAndDelete,
		compute: func(k K, f func(int, bool) (int, bool)) (int, bool) {
			return c.Compute(k, f, cache.NoExpiration)
		},
		rng:  c.Range,
		size: c.Count,
	}
}

var scriptNames = []string{"Store x; Load y", "Store x; LoadOrStore y", "Store x; LoadAndStore y; Load x", "Store x; Delete y; Load x", "Store x; Compute y; Load x", "Store x; Store y; Range+Size", "Store x; LoadAndDelete y; Load x", "Store x; Compute(delete) y; Load x"}

// checkKeyType enumerates everything for one key type.
func checkKeyType[K comparable](st *c10Stats, tname string, vals []K, names []string, mutate func()) {
	st.types++
	idx := func(k K) int {
		for i, v := range vals {
			if v == k {
				return i
			}
		}
		return 99
	}
	hashers := []struct {
		name string
		h    func(K, uint64) uint64
	}{
		{"default", nil},
		{"constant", func(K, uint64) uint64 { return 0x1234 }},
		{"bucket-collide", func(k K, _ uint64) uint64 { return 5<<7 | uint64(idx(k)+1)&0x7f }},
	}
	report := func(sig, detail string) {
		if st.seenSig[sig] {
			return
		}
		st.seenSig[sig] = true
		st.findings = append(st.findings, Finding{Property: "C10", Signature: sig, Detail: detail,
			Replay: map[string]interface{}{"engine": "C10", "type": tname}})
	}
	for xi, x := range vals {
		for yi, y := range vals {
			if yi == xi {
				y = freshCopy(y) // the same key built a second time (strings re-allocated)
			}
			st.pairs++
			for sc := range scriptNames {
				want := runScript(sc, x, y, builtinOps[K]())
				for _, hs := range hashers {
					for cont := 0; cont < 2; cont++ {
						if cont == 1 && hs.h != nil {
							continue // CacheOf always uses the default hasher
						}
						var got obs
						cname := "MapOf"
						func() {
							defer func() {
								if r := recover(); r != nil {
									got = obs{fmt.Sprintf("PANIC at construction: %v", r)}
								}
							}()
							if cont == 0 {
								var m *xsync.MapOf[K, int]
								if hs.h == nil {
									m = xsync.NewMapOf[K, int]()
								} else {
									m = xsync.NewMapOfWithHasher[K, int](hs.h)
								}
								got = runScript(sc, x, y, mapOfOps(m))
							} else {
								cname = "CacheOf"
								got = runScript(sc, x, y, cacheOfOps(cache.NewOf[K, int](cache.WithCleanupIntervalOf[K, int](0))))
							}
						}()
						st.runs++
						st.steps += len(got) + 1
						if len(st.samples) < 4 && xi != yi && sc == 1 && hs.h == nil {
							st.samples = append(st.samples, map[string]interface{}{"type": tname, "x": names[xi], "y": names[yi], "script": scriptNames[sc], "container": cname, "observed": got, "builtin_map": want})
						}
						if strings.Join(got, ";") != strings.Join(want, ";") {
							what := "aliased or split keys"
							for _, g := range got {
								if strings.HasPrefix(g, "PANIC") {
									what = "panic"
								}
							}
							eq := "x!=y"
							if x == y {
								eq = "x==y"
							}
							report(fmt.Sprintf("key type %s, hasher %s: %s (%s)", tname, hs.name, what, valueClass(tname, names[xi], names[yi], eq)),
								fmt.Sprintf("%s[%s,int] hasher=%s x=%s y=%s (%s) script %q:\n  observed %v\n  builtin  %v", cname, tname, hs.name, names[xi], names[yi], eq, scriptNames[sc], got, want))
						}
					}
				}
			}
		}
	}
	// entries stay reachable regardless of later changes to memory the key merely points to
	if mutate != nil {
		for vi, v := range vals {
			for cont := 0; cont < 2; cont++ {
				var o string
				func() {
					defer func() {
						if r := recover(); r != nil {
							o = fmt.Sprintf("PANIC: %v", r)
						}
					}()
					var ops mapOps[K]
					if cont == 0 {
						ops = mapOfOps(xsync.NewMapOf[K, int]())
					} else {
						ops = cacheOfOps(cache.NewOf[K, int](cache.WithCleanupIntervalOf[K, int](0)))
					}
					ops.store(v, 1)
					mutate()
					got, ok := ops.load(v)
					ops.del(v)
					o = fmt.Sprintf("load=%d,%v size after delete=%d", got, ok, ops.size())
					mutate() // toggles back
				}()
				st.runs++
				st.steps += 3
				if o != "load=1,true size after delete=0" {
					report(fmt.Sprintf("key type %s, hasher default: entry unreachable after the memory the key points to changed (%s)", tname, valueClass(tname, names[vi], "", "")),
						fmt.Sprintf("[%s,int] container %d: Store(%s); mutate pointee; Load/Delete -> %s", tname, cont, names[vi], o))
				}
			}
		}
	}
}

// manyColliding stores n distinct keys whose hashes collide completely (one chain) or into 4 chains and
// compares Load / Range / Size / Delete with a builtin map at several points ("distinct keys never alias
// even when their hashes collide completely", also across the table resizes the inserts trigger).
func manyColliding[K comparable](st *c10Stats, tname string, gen func(i int) K, n int) {
	for _, chains := range []uint64{1, 4} {
		idx := map[K]int{}
		for i := 0; i < n; i++ {
			idx[gen(i)] = i
		}
		h := func(k K, _ uint64) uint64 { i := uint64(idx[k]); return (i%chains)<<7 | (i/chains)%100 }
		var problem string
		func() {
			defer func() {
				if r := recover(); r != nil {
					problem = fmt.Sprintf("PANIC: %v", r)
				}
			}()
			m := xsync.NewMapOfWithHasher[K, int](h)
			ref := map[K]int{}
			check := func(when string) {
				if problem != "" {
					return
				}
				if m.Size() != len(ref) {
					problem = fmt.Sprintf("%s: Size=%d, builtin map has %d", when, m.Size(), len(ref))
					return
				}
				seen := 0
				m.Range(func(k K, v int) bool {
					seen++
					if rv, ok := ref[k]; !ok || rv != v {
						problem = fmt.Sprintf("%s: Range shows %v=%d, builtin map has (%d,%v)", when, k, v, rv, ok)
					}
					return true
				})
				if problem == "" && seen != len(ref) {
					problem = fmt.Sprintf("%s: Range visits %d entries, builtin map has %d", when, seen, len(ref))
				}
				for i := 0; i < n && problem == ""; i++ {
					k := gen(i)
					v, ok := m.Load(k)
					if rv, rok := ref[k]; ok != rok || v != rv {
						problem = fmt.Sprintf("%s: Load(key #%d)=(%d,%v), builtin map has (%d,%v)", when, i, v, ok, rv, rok)
					}
				}
			}
			for i := 0; i < n; i++ {
				m.Store(gen(i), i+1)
				ref[gen(i)] = i + 1
				st.steps++
				if i == 5 || i == 11 || i == 125 || i == n-1 {
					check(fmt.Sprintf("after storing %d colliding keys", i+1))
				}
			}
			for i := 0; i < n; i += 3 {
				m.Delete(gen(i))
				delete(ref, gen(i))
				st.steps++
			}
			check("after deleting every third key")
			for i := 0; i < n; i += 6 {
				m.Store(gen(i), -i-1)
				ref[gen(i)] = -i - 1
				st.steps++
			}
			check("after re-inserting into the holes")
			// whole buckets at the head of a chain become vacant while later buckets of the chain stay in use
			for i := 0; i < n/2; i++ {
				m.Delete(gen(i))
				delete(ref, gen(i))
				st.steps++
			}
			check("after deleting the oldest half")
			for i := n / 2; i < n-1; i++ {
				m.Delete(gen(i))
				delete(ref, gen(i))
				st.steps++
				if i == n-8 {
					check("after deleting all but the newest 7 keys")
				}
			}
			check("after deleting all but the newest key")
		}()
		st.runs++
		if problem != "" {
			sig := fmt.Sprintf("key type %s: %d keys colliding into %d chain(s) are lost, aliased or duplicated", tname, n, chains)
			if !st.seenSig[sig] {
				st.seenSig[sig] = true
				st.findings = append(st.findings, Finding{Property: "C10", Signature: sig, Detail: problem, Replay: map[string]interface{}{"engine": "C10", "type": tname}})
			}
		}
	}
}

// valueClass keeps signatures stable: which special kinds of dynamic value are involved
// (nil, pointer, pointer-shaped struct), not the identity of the values.
func valueClass(tname, x, y, eq string) string {
	cls := func(n string) string {
		if i := strings.IndexByte(n, ':'); i >= 0 {
			switch c := n[:i]; c {
			case "nil", "pointer", "pointer-shaped struct":
				return c
			}
		}
		return ""
	}
	set := map[string]bool{}
	for _, n := range []string{x, y} {
		if c := cls(n); c != "" {
			set[c] = true
		}
	}
	var l []string
	for _, c := range []string{"nil", "pointer", "pointer-shaped struct"} {
		if set[c] {
			l = append(l, c)
		}
	}
	if len(l) == 0 {
		return "ordinary values"
	}
	return "involving a " + strings.Join(l, " and a ") + " value"
}

func runC10(rc *runCtx) int {
	vtime.VDisable()
	st := &c10Stats{seenSig: map[string]bool{}}
	xsync.VerifHashString, xsync.VerifHasher = nil, nil
	negZero := math.Copysign(0, -1)
	for _, seed := range []uint64{0, 1, 1 << 32, math.MaxUint64} {
		if seed == 0 {
			xsync.VerifSeed = nil // the real random seed
		} else {
			s := seed
			xsync.VerifSeed = func() uint64 { return s }
		}
		if rc.Tier != "thorough" && seed > 1 {
			continue
		}
		p, q := new(int), new(int)
		*p, *q = 7, 7
		toggle := func() { *p ^= 1; *q ^= 1 }
		checkKeyType(st, "string", []string{"", "a", "b", "ab", "a\x00"}, []string{`""`, `"a"`, `"b"`, `"ab"`, `"a\x00"`}, nil)
		long := strings.Repeat("0123456789", 4)
		checkKeyType(st, "long string", []string{long + "1", long + "2", "1" + long, strings.Repeat("z", 1000), strings.Repeat("z", 1001)},
			[]string{"40 bytes+1", "40 bytes+2", "1+40 bytes", "1000 bytes", "1001 bytes"}, nil)
		checkKeyType(st, "int", []int{0, 1, -1, math.MinInt64}, []string{"0", "1", "-1", "min"}, nil)
		checkKeyType(st, "int8", []int8{0, 1, -1, math.MinInt8}, []string{"0", "1", "-1", "min"}, nil)
		checkKeyType(st, "uint64", []uint64{0, 1, math.MaxUint64, 1 << 63}, []string{"0", "1", "max", "1<<63"}, nil)
		checkKeyType(st, "uintptr", []uintptr{0, 1, ^uintptr(0)}, []string{"0", "1", "max"}, nil)
		checkKeyType(st, "float64", []float64{0, negZero, 1, -1, math.Inf(1)}, []string{"+0", "-0", "1", "-1", "+Inf"}, nil)
		checkKeyType(st, "float32", []float32{0, float32(negZero), 1, float32(math.Inf(-1))}, []string{"+0", "-0", "1", "-Inf"}, nil)
		checkKeyType(st, "complex128", []complex128{0, complex(negZero, 0), complex(0, negZero), 1i}, []string{"0", "-0+0i", "0-0i", "1i"}, nil)
		checkKeyType(st, "bool", []bool{false, true}, []string{"false", "true"}, nil)
		checkKeyType(st, "uint8", []uint8{0, 1, 255}, []string{"0", "1", "255"}, nil)
		checkKeyType(st, "int16", []int16{0, -1, math.MinInt16}, []string{"0", "-1", "min"}, nil)
		checkKeyType(st, "int32", []int32{0, 1, -1, math.MaxInt32}, []string{"0", "1", "-1", "max"}, nil)
		checkKeyType(st, "complex64", []complex64{0, complex(float32(negZero), 0), 1 + 1i}, []string{"0", "-0+0i", "1+1i"}, nil)
		checkKeyType(st, "[3]byte", [][3]byte{{}, {0, 0, 1}, {1, 0, 0}}, []string{"{0,0,0}", "{0,0,1}", "{1,0,0}"}, nil)
		checkKeyType(st, "[2][2]int8", [][2][2]int8{{}, {{0, 1}, {0, 0}}, {{0, 0}, {1, 0}}}, []string{"zero", "a", "b"}, nil)
		checkKeyType(st, "struct{bool;int32;bool}", []boolPad{{}, {true, 0, false}, {false, 0, true}, {false, 1, false}}, []string{"zero", "{t,0,f}", "{f,0,t}", "{f,1,f}"}, nil)
		checkKeyType(st, "struct{interface{}}", []ifaceField{{nil}, {1}, {"a"}, {p}, {q}}, []string{"nil:{nil}", "{1}", "{a}", "pointer:{p}", "pointer:{q}"}, toggle)
		checkKeyType(st, "struct{[2]float64}", []farr{{}, {[2]float64{negZero, 0}}, {[2]float64{0, 1}}}, []string{"{+0,+0}", "{-0,+0}", "{0,1}"}, nil)
		checkKeyType(st, "*int", []*int{nil, p, q}, []string{"nil", "p", "q(*q==*p)"}, toggle)
		checkKeyType(st, "unsafe.Pointer", []unsafe.Pointer{nil, unsafe.Pointer(p), unsafe.Pointer(q)}, []string{"nil", "p", "q"}, toggle)
		checkKeyType(st, "chan int", func() []chan int { c := make(chan int); return []chan int{nil, c, make(chan int)} }(), []string{"nil", "c1", "c2"}, nil)
		checkKeyType(st, "[2]int", [][2]int{{0, 0}, {0, 1}, {1, 0}}, []string{"{0,0}", "{0,1}", "{1,0}"}, nil)
		checkKeyType(st, "[2]string", [][2]string{{"", ""}, {"a", ""}, {"", "a"}, {"a", "a"}}, []string{`{"",""}`, `{"a",""}`, `{"","a"}`, `{"a","a"}`}, nil)
		checkKeyType(st, "struct{int8;int64}", []padded{{0, 0}, {1, 0}, {0, 1}, {-1, -1}}, []string{"{0,0}", "{1,0}", "{0,1}", "{-1,-1}"}, nil)
		checkKeyType(st, "struct{string;int}", []strInt{{"", 0}, {"a", 0}, {"", 1}, {"a", 1}}, []string{`{"",0}`, `{"a",0}`, `{"",1}`, `{"a",1}`}, nil)
		checkKeyType(st, "nested struct", []nested{{}, {P: padded{1, 2}}, {S: strInt{"x", 3}}, {padded{1, 2}, strInt{"x", 3}}}, []string{"zero", "P", "S", "PS"}, nil)
		checkKeyType(st, "struct{float64}", []fkey{{0}, {negZero}, {1}}, []string{"{+0}", "{-0}", "{1}"}, nil)
		ns := func(id int, f, l string) nestedStr {
			var x nestedStr
			x.ID, x.Name.First, x.Name.Last = id, f, l
			return x
		}
		checkKeyType(st, "struct{int;struct{string;string}}", []nestedStr{ns(0, "", ""), ns(1, "ada", "lovelace"), ns(1, "ada", ""), ns(1, "", "ada")}, []string{"zero", "{1,ada,lovelace}", "{1,ada,}", "{1,,ada}"}, nil)
		checkKeyType(st, "struct{int;[2]string}", []arrStr{{}, {1, [2]string{"go", "cache"}}, {1, [2]string{"cache", "go"}}}, []string{"zero", "{1,go,cache}", "{1,cache,go}"}, nil)
		nf := func(z int, x, y float64) nestedF { var v nestedF; v.Zoom, v.P.X, v.P.Y = z, x, y; return v }
		checkKeyType(st, "struct{int;struct{float64;float64}}", []nestedF{nf(0, 0, 0), nf(0, negZero, 0), nf(0, 0, negZero), nf(1, 0, 0)}, []string{"{0,+0,+0}", "{0,-0,+0}", "{0,+0,-0}", "{1,0,0}"}, nil)
		checkKeyType(st, "struct{*int}", []ptrShaped{{nil}, {p}, {q}}, []string{"{nil}", "{p}", "{q}"}, toggle)
		checkKeyType(st, "interface{}", []interface{}{nil, 1, "a", 0.0, negZero, p, q, padded{1, 2}, [2]int{1, 2}, true, ptrShaped{p}, int32(1), uint32(1), sval("a")},
			[]string{"nil:nil", "int:1", "string:a", "float64:+0", "float64:-0", "pointer:p", "pointer:q", "struct:padded", "array:[2]int", "bool:true", "pointer-shaped struct:{p}", "int32:1", "uint32:1", "named string:sval(a)"}, toggle)
		if seed <= 1 {
			manyColliding(st, "int", func(i int) int { return i * 7 }, 300)
			manyColliding(st, "string", func(i int) string { return fmt.Sprint("key-", i) }, 300)
			manyColliding(st, "struct{string;int}", func(i int) strInt { return strInt{fmt.Sprint(i % 17), i} }, 300)
			manyColliding(st, "interface{}", func(i int) interface{} {
				if i%2 == 0 {
					return i
				}
				return fmt.Sprint(i)
			}, 300)
		}
		checkKeyType(st, "interface{String() string}", []stringer{nil, sval("a"), sval("b"), ival(1), ival(2), time.Duration(1)},
			[]string{"nil:nil", "named string:a", "named string:b", "named int:1", "named int:2", "int64:Duration(1)"}, nil)
	}
	cov := map[string]interface{}{
		"states": st.pairs, "transitions": st.steps, "traces_validated_against_impl": st.runs, "samples": st.samples, "exhaustive": true,
		"key_types": st.types, "ordered_key_pairs": st.pairs, "scripts": len(scriptNames),
		"rule": "complete enumeration: every key type of the catalogue x every ordered pair of its domain values x 6 scripts x {default, constant, bucket-colliding} hasher x {MapOf, CacheOf}; a state is an ordered key pair of a type; every run is compared with a builtin map given the same script; NaN excluded",
	}
	exit, known, viol := rc.report(st.findings)
	cov["known_findings_reported"] = known
	rc.writeEvidence(cov, []string{
		"the catalogue is finite: string, int, int8, uint64, uintptr, float64, float32, complex128, bool, *int, unsafe.Pointer, chan int, [2]int, [2]string, padded struct, struct with string field, nested struct, struct with float field, pointer-shaped struct, interface{} and a non-empty interface holding nil, int, string, +0/-0, pointers, struct, array, bool, pointer-shaped struct, int32(1)/uint32(1), named types",
		"the per-process random hash key of the Go runtime is not enumerable; the default-hasher runs are correct-for-any-seed oracles executed for the table seeds {random, 1} (thorough: also 2^32, 2^64-1)",
		"NaN keys are excluded (NaN != NaN)",
	}, viol)
	fmt.Printf("C10 %s: key_types=%d ordered_pairs=%d runs=%d violations=%d known=%d wall=%.1fs\n", rc.Tier, st.types, st.pairs, st.runs, viol, known, time.Since(rc.t0).Seconds())
	return exit
}

func init() {
	checks["C10"] = runC10
	replayers["C10"] = func(path, prop string, payload map[string]interface{}) int {
		rc := &runCtx{Prop: "C10", Tier: "quick", t0: time.Now(), Evidence: os.DevNull, ReplayDir: os.TempDir(), KnownFile: "/verif/known_findings.json"}
		return runC10(rc)
	}
}
