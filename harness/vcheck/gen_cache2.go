package main

import (
	"fmt"
	"time"
)

// Cache-level families of C05, C06, C07, C08, C13 and C16.

func genC06(level int) []*CacheScen {
	var out []*CacheScen
	removers := []CIn{cDelete, cGaD, cDelExp}
	others := []CIn{cSet, cGaS, cCSet, cCDel, cGet, cGoS, cClear}
	for _, tw := range []int{0, 1} {
		add := func(cs *CacheScen) { cs.Twin = tw; cs.Callback = true; out = append(out, cs) }
		for _, ini := range []int{ILive, IExpired} {
			for i, a := range removers {
				for j, b := range removers {
					if j < i {
						continue
					}
					add(&CacheScen{Rel: RelSS, NKeys: 2, Init: []int{ini, IAbsent}, Table: TPlain, Threads: [][]CIn{{con(a, 0)}, {con(b, 0)}}})
					// three removers / two removers and a writer
					for _, c3 := range append(append([]CIn{}, removers...), cSet, cGaS) {
						ntrav := 0
						for _, o := range []CIn{a, b, c3} {
							if o.Op == CDeleteExpired {
								ntrav++
							}
						}
						if level == 0 && (ntrav >= 2 || !(c3.Op == CDeleteExpired || c3.Op == CSet)) {
							continue
						}
						add(&CacheScen{Rel: RelSS, NKeys: 2, Init: []int{ini, IAbsent}, Table: TPlain, Threads: [][]CIn{{con(a, 0)}, {con(b, 0)}, {con(c3, 0)}}})
					}
				}
				for _, b := range others {
					add(&CacheScen{Rel: RelSS, NKeys: 2, Init: []int{ini, IAbsent}, Table: TPlain, Threads: [][]CIn{{con(a, 0)}, {con(b, 0)}}})
					// the writer's value may itself be removed afterwards by the same thread
					add(&CacheScen{Rel: RelSS, NKeys: 2, Init: []int{ini, IAbsent}, Table: TPlain, Threads: [][]CIn{{con(a, 0)}, {con(b, 0), con(cDelete, 0)}}})
				}
			}
			// two cleanup passes (and a cleanup pass against single-key removers) on a cache that has cleaned up before
			for _, rel := range []KeyRel{RelSS, RelDD} {
				add(&CacheScen{Rel: rel, NKeys: 2, Init: []int{ini, IExpired}, Table: TPlain, Warm: true, Threads: [][]CIn{{cDelExp}, {cDelExp}}})
				add(&CacheScen{Rel: rel, NKeys: 2, Init: []int{ini, IExpired}, Table: TPlain, Warm: true, Threads: [][]CIn{{cDelExp}, {con(cDelete, 0), cDelExp}}})
			}
			// an entry is stored and expires (the clock moves) while another call is in flight: the cleanup pass
			// that starts afterwards must remove it whatever else is running (checked by the quiescent Count)
			for _, x := range []CIn{cDelExp, con(cGet, 0), con(cDelete, 0), cRange, con(cGoS, 1)} {
				for _, ini2 := range []int{ini} {
					for _, rel := range []KeyRel{RelSS, RelDD} {
						add(&CacheScen{Rel: rel, NKeys: 2, Init: []int{ini2, IAbsent}, Table: TPlain, Threads: [][]CIn{{x}, {con(CIn{Op: CSet, D: 2}, 1), {Op: CAdvance, D: 3}, cDelExp}}})
					}
				}
			}
			// the callback is swapped or removed while a pass that evicts two entries (or a remover) runs
			for _, sw := range []CIn{{Op: CSetCallback, CB: 0}, {Op: CSetCallback, CB: 2}} {
				add(&CacheScen{Rel: RelSD, NKeys: 2, Init: []int{ini, IExpired}, Table: TPlain, Threads: [][]CIn{{cDelExp}, {sw}}})
				add(&CacheScen{Rel: RelSD, NKeys: 2, Init: []int{ini, IExpired}, Table: TPlain, Threads: [][]CIn{{con(cDelete, 0), con(cGaD, 1)}, {sw}}})
			}
			// two expired keys in one bucket, two cleanup passes
			add(&CacheScen{Rel: RelSS, NKeys: 2, Init: []int{ini, IExpired}, Table: TPlain, Threads: [][]CIn{{cDelExp}, {cDelExp}}})
			if level >= 1 {
				add(&CacheScen{Rel: RelDD, NKeys: 2, Init: []int{ini, IExpired}, Table: TPlain, Threads: [][]CIn{{cDelExp}, {cDelExp}, {con(cSet, 1)}}})
			}
		}
	}
	return out
}

func genC05Cache(level int) []*CacheScen {
	var out []*CacheScen
	goc := []CIn{cGoS, cGoC}
	rmw := []CIn{cCInc, cGaS, cGaR}
	for _, tw := range []int{0, 1} {
		add := func(cs *CacheScen) { cs.Twin = tw; out = append(out, cs) }
		for _, ini := range []int{IAbsent, IExpired, ILive} {
			for i, a := range goc {
				for j, b := range goc {
					if j < i {
						continue
					}
					add(&CacheScen{Rel: RelSS, NKeys: 2, Init: []int{ini, IAbsent}, Table: TPlain, Threads: [][]CIn{{con(a, 0)}, {con(b, 0)}}})
					add(&CacheScen{Rel: RelSS, NKeys: 2, Init: []int{ini, IAbsent}, Table: TPlain, Threads: [][]CIn{{con(a, 0)}, {con(b, 0)}, {con(a, 0)}}})
					add(&CacheScen{Rel: RelSS, NKeys: 2, Init: []int{ini, IAbsent}, Table: TPlain, Threads: [][]CIn{{con(a, 0)}, {con(b, 0)}, {con(cSet, 1)}}})
					if ini == IExpired {
						// a cleanup pass racing the re-creation: still exactly one creator
						add(&CacheScen{Rel: RelSS, NKeys: 2, Init: []int{ini, IAbsent}, Table: TPlain, Threads: [][]CIn{{con(a, 0)}, {con(b, 0)}, {cDelExp}}})
					}
				}
			}
		}
		for _, ini := range []int{ILive, ILiveTTL, IAbsent} {
			for i, a := range rmw {
				for j, b := range rmw {
					if j < i {
						continue
					}
					add(&CacheScen{Rel: RelSS, NKeys: 2, Init: []int{ini, IAbsent}, Table: TPlain, Threads: [][]CIn{{con(a, 0)}, {con(b, 0)}}})
					if level >= 1 || i == j {
						add(&CacheScen{Rel: RelSS, NKeys: 2, Init: []int{ini, IAbsent}, Table: TPlain, Threads: [][]CIn{{con(a, 0)}, {con(b, 0)}, {con(a, 0)}}})
					}
				}
			}
		}
		// retry after a grow triggered by another caller
		for _, a := range []CIn{cGoC, cCInc, cGoS} {
			add(&CacheScen{Rel: RelDD, NKeys: 2, Init: []int{IAbsent, IAbsent}, Table: TGrowArmed, Threads: [][]CIn{{con(cSet, 0)}, {con(a, 1)}}})
			add(&CacheScen{Rel: RelDD, NKeys: 2, Init: []int{IAbsent, IExpired}, Table: TGrowArmed, Threads: [][]CIn{{con(cSet, 0)}, {con(a, 1)}}})
			add(&CacheScen{Rel: RelSD, NKeys: 2, Init: []int{IAbsent, IAbsent}, Table: TGrowArmed, Bound: 2, Threads: [][]CIn{{con(a, 0)}, {con(a, 0)}}})
		}
	}
	return out
}

func genC07Cache(level int) []*CacheScen {
	var out []*CacheScen
	for _, tw := range []int{0, 1} {
		add := func(cs *CacheScen) { cs.Twin = tw; out = append(out, cs) }
		for _, rel := range []KeyRel{RelSD, RelDD} {
			for _, w := range []CIn{cSet, cSetTTL, cDelete, cGaS, cGoS, cDelExp, cClear, cGaR} {
				// k1 expired-uncleaned (never visited), k2 live and untouched (always visited), k0 written
				for _, i0 := range []int{IAbsent, ILive, IExpired} {
					if w.Op == CClear && i0 != IAbsent {
						continue
					}
					add(&CacheScen{Rel: rel, NKeys: 3, Init: []int{i0, IExpired, ILive}, Table: TPlain, Threads: [][]CIn{{cRange}, {con(w, 0)}}})
				}
			}
		}
		add(&CacheScen{Rel: RelSD, NKeys: 3, Init: []int{IAbsent, IExpired, ILive}, Table: TGrowArmed, Threads: [][]CIn{{cRange}, {con(cSet, 0)}}})
		// Items (built on Range) alone and against writers
		cItems := CIn{Op: CItems}
		add(&CacheScen{Rel: RelSD, NKeys: 3, Init: []int{ILiveTTL, IExpired, ILive}, Table: TPlain, Threads: [][]CIn{{cItems}}})
		for _, w := range []CIn{cSet, cDelete, cDelExp, cGaR} {
			for _, i0 := range []int{ILive, IExpired} {
				add(&CacheScen{Rel: RelSD, NKeys: 3, Init: []int{i0, IExpired, ILive}, Table: TPlain, Threads: [][]CIn{{cItems}, {con(w, 0)}}})
			}
		}
		add(&CacheScen{Rel: RelSD, NKeys: 3, Init: []int{ILive, IExpired, ILive}, Table: TPlain, Warm: true, Threads: [][]CIn{{cItems}, {con(cSet, 0)}}})
		// traversals of a cache with a history (resized, cleaned up once), alone and against a writer / a cleanup
		// pass, and with an entry that expires while the traversal may be running
		add(&CacheScen{Rel: RelSD, NKeys: 3, Init: []int{ILiveTTL, IExpired, ILive}, Table: TPlain, Warm: true, Threads: [][]CIn{{cRange}}})
		for _, w := range []CIn{cSet, cDelete, cDelExp, cGaR} {
			add(&CacheScen{Rel: RelSD, NKeys: 3, Init: []int{ILive, IExpired, ILive}, Table: TPlain, Warm: true, Threads: [][]CIn{{cRange}, {con(w, 0)}}})
		}
		add(&CacheScen{Rel: RelSD, NKeys: 3, Init: []int{IAbsent, IExpired, ILive}, Table: TPlain, Threads: [][]CIn{{cRange}, {con(CIn{Op: CSet, D: 2}, 0), {Op: CAdvance, D: 3}, cRange}}})
		add(&CacheScen{Rel: RelSD, NKeys: 3, Init: []int{IAbsent, IExpired, ILive}, Table: TPlain, Warm: true, Threads: [][]CIn{{cDelExp}, {con(CIn{Op: CSet, D: 2}, 0), {Op: CAdvance, D: 3}, cRange}}})
		if level >= 1 {
			add(&CacheScen{Rel: RelDD, NKeys: 3, Init: []int{ILive, IExpired, ILive}, Table: TPlain, Bound: 3, Threads: [][]CIn{{cRange}, {con(cDelete, 0)}, {cDelExp}}})
		}
	}
	return out
}

func genC08Cache(level int) []*CacheScen {
	var out []*CacheScen
	ops := []CIn{cSet, cDelete, cGaD, cGoS, cDelExp, cClear, cGet, cCDel, cGaR}
	for _, tw := range []int{0, 1} {
		add := func(cs *CacheScen) { cs.Twin = tw; out = append(out, cs) }
		for i, a := range ops {
			for j, b := range ops {
				if j < i {
					continue
				}
				for _, ini := range []int{IAbsent, ILive, IExpired} {
					add(&CacheScen{Rel: RelSS, NKeys: 2, Init: []int{ini, IExpired}, Table: TPlain, Threads: [][]CIn{{con(a, 0)}, {con(b, 0)}}})
				}
			}
		}
		for _, b := range []CIn{cDelExp, cDelete, cSet, cClear} {
			add(&CacheScen{Rel: RelDD, NKeys: 2, Init: []int{IAbsent, IExpired}, Table: TGrowArmed, Threads: [][]CIn{{con(cSet, 0)}, {con(b, 1)}}})
		}
		// Count right after a cleanup pass that started after an entry expired, whatever else was running
		for _, x := range []CIn{cDelExp, con(cGet, 0), con(cDelete, 0), cClear} {
			for _, ini := range []int{IExpired, ILive} {
				add(&CacheScen{Rel: RelSS, NKeys: 2, Init: []int{ini, IAbsent}, Table: TPlain, Threads: [][]CIn{{x}, {con(CIn{Op: CSet, D: 2}, 1), {Op: CAdvance, D: 3}, cDelExp}}})
			}
		}
	}
	return out
}

func genC13Cache(level int) []*CacheScen {
	out := genC02(level)
	out = append(out, genC07Cache(level)...)
	for _, tw := range []int{0, 1, 2} {
		add := func(cs *CacheScen) { cs.Twin = tw; out = append(out, cs) }
		// the Range visitor calls back into the cache (any method): alone and against a writer
		for _, vo := range []CIn{con(cSet, 2), con(cSet, -1), con(cDelete, -1), con(cGaD, 1), cDelExp, cClear, cRange, con(cGoC, 2), con(cGaR, -1), {Op: CItems}, cCount} {
			vo := vo
			add(&CacheScen{Rel: RelSD, NKeys: 3, Init: []int{ILive, IExpired, IAbsent}, Table: TPlain, Callback: true, VisitorOp: &vo, Threads: [][]CIn{{cRange}}})
			add(&CacheScen{Rel: RelSD, NKeys: 3, Init: []int{ILive, ILive, IAbsent}, Table: TPlain, Callback: true, VisitorOp: &vo, Threads: [][]CIn{{cRange}, {con(cSet, 0)}}})
		}
		// evicted callback re-enters the cache: sequentially and against a concurrent writer
		for _, rm := range []CIn{cDelete, cGaD, cDelExp} {
			for _, ini := range []int{ILive, IExpired} {
				add(&CacheScen{Rel: RelSS, NKeys: 3, Init: []int{ini, IExpired, IAbsent}, Table: TPlain, Callback: true, CBReenter: true, Threads: [][]CIn{{con(rm, 0)}}})
				add(&CacheScen{Rel: RelSS, NKeys: 3, Init: []int{ini, IExpired, IAbsent}, Table: TPlain, Callback: true, CBReenter: true, Threads: [][]CIn{{con(rm, 0)}, {con(cSet, 1)}}})
				add(&CacheScen{Rel: RelSS, NKeys: 3, Init: []int{ini, IExpired, IAbsent}, Table: TPlain, Callback: true, CBReenter: true, Threads: [][]CIn{{con(rm, 0)}, {cDelExp}}})
			}
		}
	}
	return out
}

func genC16Cache(level int) []*CacheScen {
	var out []*CacheScen
	readers := []CIn{cGet, cGetExp, cGetTTL, cCount}
	cCPark := CIn{Op: CCompute, Fn: FnSet, D: durNoExp}
	stallers := []CIn{cSet, cDelete, cGaS, cCPark, cGoC, cDelExp, cClear, cRange, cGaR}
	for _, tw := range []int{0, 1, 2} {
		add := func(cs *CacheScen) {
			cs.Twin = tw
			cs.NoBlock = []bool{true, false}
			cs.MaxSteps = []int{100, 0}
			out = append(out, cs)
		}
		for _, rd := range readers {
			for _, st := range stallers {
				for _, ini := range []int{ILive, ILiveTTL, IAbsent} {
					// reader on k0; the staller works on the same key, a bucket mate or an unrelated key.
					// (the staller must not leave k0 expired: all its ttl arguments are in the far future)
					if ini != IAbsent || st.Op == CSet || st.Op == CGetAndSet || st.Op == CCompute || st.Op == CGetOrCompute {
						if !(ini == IAbsent && rd.Op != CCount) {
							add(&CacheScen{Rel: RelSS, NKeys: 2, Init: []int{ini, ILive}, Table: TPlain, Threads: [][]CIn{{con(rd, 0)}, {con(st, 0)}}})
						}
					}
					add(&CacheScen{Rel: RelSS, NKeys: 2, Init: []int{ini, ILive}, Table: TPlain, Threads: [][]CIn{{con(rd, 0)}, {con(st, 1)}}})
					if level >= 1 {
						add(&CacheScen{Rel: RelDD, NKeys: 2, Init: []int{ini, ILive}, Table: TPlain, Threads: [][]CIn{{con(rd, 0)}, {con(st, 1)}}})
					}
				}
			}
			add(&CacheScen{Rel: RelSD, NKeys: 2, Init: []int{IAbsent, ILive}, Table: TGrowArmed, Threads: [][]CIn{{con(rd, 1)}, {con(cSet, 0)}}})
		}
	}
	return out
}

func init() {
	scenarioGens["C06"] = func(tier string) []*Scenario {
		out := cacheScenarios(genC06(lvlOf(tier)), "C06", OLedger, false)
		// all call sequences (E2) with a recording callback installed / swapped
		for _, s := range genSeqCache("C06", lvlOf(tier)) {
			out = append(out, s)
		}
		// the janitor as remover: the real janitor goroutine driven through a captured ticker, callbacks swapped
		for twin := 0; twin < 2; twin++ {
			for _, cfg := range []CacheCfg{{Twin: twin, HasIvl: true, Ivl: time.Second}, {Twin: twin, UseDefault: true, Def: 2, Ivl: time.Second}} {
				for _, cb := range []bool{false, true} {
					name := fmt.Sprintf("C06/janitor/%s/callback=%v", cfg, cb)
					def := durNoExp
					if cfg.UseDefault {
						def = normDef(cfg.Def)
					}
					ev := append(c15Alphabet(1), CIn{Op: CSetCallback, CB: 1})
					sp := newCacheSeqSpec(name, cfg, def, cb, ev, 4, "C06")
					sp.janitor = true
					out = append(out, &Scenario{Name: name, Prop: "C06", Seq: sp, ExpectOutcomes: 2})
				}
			}
		}
		return out
	}
	replayers["C06nested"] = func(path, prop string, payload map[string]interface{}) int {
		f, _ := c06Nested()
		for _, x := range f {
			fmt.Printf("VIOLATION property=C06 replay=%s\n  %s\n  %s\n", path, x.Signature, x.Detail)
		}
		if len(f) > 0 {
			return 1
		}
		fmt.Println("no violation")
		return 0
	}
	checks["C06"] = func(rc *runCtx) int {
		extraFindings = func(cov map[string]interface{}) []Finding {
			f, n := c06Nested()
			cov["reentrant_callback_scripts_enumerated"] = n
			return f
		}
		return runE1Check(rc, append(append([]string{}, e1Assumptions...), e2Assumptions...), nil)
	}
	wrap := func(p string, cacheGen func(int) []*CacheScen, classes int, fn bool) {
		scenarioGens[p] = func(tier string) []*Scenario {
			return append(scenarioGens[p+"maps"](tier), cacheScenarios(cacheGen(lvlOf(tier)), p, classes, fn)...)
		}
	}
	wrap("C05", genC05Cache, OLin|OFn, true)
	wrap("C07", genC07Cache, OLin|ORange, false)
	wrap("C08", genC08Cache, OCount, false)
	c08 := scenarioGens["C08"]
	scenarioGens["C08"] = func(tier string) []*Scenario {
		out := append(c08(tier), genStaggered("C08")...)
		// Size of a table large enough to have more counter stripes than the minimum (16384+ root buckets)
		for kind := 0; kind < 2; kind++ {
			name := fmt.Sprintf("C08/resize-histories/%s/large-table", bulkKinds[kind])
			out = append(out, &Scenario{Name: name, Prop: "C08", Seq: bulkSpec(name, kind, 0, 1, 40000, 2+lvlOf(tier), 0), ExpectOutcomes: 2})
		}
		return out
	}
	wrap("C13", genC13Cache, OTerm, false)
	wrap("C16", genC16Cache, OMon|OLin, false)
}
