package main

import (
	"fmt"
	"runtime"
	"sort"
	"strings"
	"time"

	"github.com/fufuok/cache/internal/vshim/sched"
	vtime "github.com/fufuok/cache/internal/vshim/time"
)

const epochNs = int64(1_000_000_000_000_000_000) // virtual clock start: 10^18 ns

// ledger collects evicted-callback deliveries of the current call.
type ledger struct {
	tick     *vtime.CapturedTicker
	cur      []string
	reentryV string // set if a callback found its own value still retrievable
	c        CacheLike
}

func (l *ledger) cb(id int) func(k, v int) {
	return func(k, v int) {
		l.cur = append(l.cur, fmt.Sprintf("cb%d:k%d=%d;", id, k, v))
		if c := l.c; c != nil {
			// the callback runs outside internal locks: it may call back into the cache;
			// the value it was given must be gone.
			if g, ok := c.Get(k); ok && g == v {
				l.reentryV = fmt.Sprintf("callback for (k%d,%d) found that value still retrievable", k, v)
			}
			c.Count()
		}
	}
}

func (l *ledger) take() string {
	sort.Strings(l.cur)
	s := strings.Join(l.cur, "")
	l.cur = l.cur[:0]
	return s
}

// execCacheOp performs one call on the implementation and returns what was observed.
func execCacheOp(c CacheLike, in CIn, l *ledger, parkInFn func()) COut {
	var out COut
	switch in.Op {
	case CSet:
		c.Set(in.K, in.V, in.D)
	case CSetDefault:
		c.SetDefault(in.K, in.V)
	case CSetForever:
		c.SetForever(in.K, in.V)
	case CGet:
		out.V, out.Ok = c.Get(in.K)
	case CGetWithExpiration:
		var t time.Time
		out.V, t, out.Ok = c.GetWithExpiration(in.K)
		if !t.IsZero() {
			out.Exp = t.UnixNano()
			if t.Nanosecond() != int(out.Exp%1_000_000_000) {
				out.Exp = -1
			}
		}
	case CGetWithTTL:
		var d time.Duration
		out.V, d, out.Ok = c.GetWithTTL(in.K)
		out.TTL = int64(d)
	case CGetOrSet:
		out.V, out.Ok = c.GetOrSet(in.K, in.V, in.D)
	case CGetAndSet:
		out.V, out.Ok = c.GetAndSet(in.K, in.V, in.D)
	case CGetAndRefresh:
		out.V, out.Ok = c.GetAndRefresh(in.K, in.D)
	case CGetOrCompute:
		out.V, out.Ok = c.GetOrCompute(in.K, func() int {
			out.FnCalls++
			if parkInFn != nil {
				parkInFn()
			}
			return in.V
		}, in.D)
	case CCompute:
		out.V, out.Ok = c.Compute(in.K, func(old int, ld bool) (int, bool) {
			out.FnCalls++
			out.FnOld, out.FnLd = old, ld
			if parkInFn != nil {
				parkInFn()
			}
			return applyFn(in.Fn, in.V, old, ld)
		}, in.D)
	case CGetAndDelete:
		out.V, out.Ok = c.GetAndDelete(in.K)
	case CDelete:
		c.Delete(in.K)
	case CDeleteExpired:
		c.DeleteExpired()
	case CRange:
		m := map[int]int{}
		n := 0
		dup := false
		c.Range(func(k, v int) bool {
			n++
			if k < NKC {
				if _, d := m[k]; d {
					dup = true
				}
				m[k] = v
			}
			return !(in.Stop > 0 && n >= in.Stop)
		})
		out.Pairs, out.N = sortedPairs(m), n // N counts every visit, Pairs only the alphabet keys
		if dup {
			out.N = -1
		}
	case CRangeNil:
		c.RangeNil()
	case CItems:
		m := c.Items()
		out.N = len(m)
		for k := range m {
			if k >= NKC {
				delete(m, k)
			}
		}
		out.Pairs = sortedPairs(m)
	case CClear:
		c.Clear()
	case CCount:
		out.N = c.Count()
	case CSetDefaultExpiration:
		c.SetDefaultExpiration(in.D)
	case CDefaultExpiration:
		out.TTL = int64(c.DefaultExpiration())
	case CSetCallback:
		switch in.CB {
		case 0:
			c.SetEvictedCallback(nil)
		default:
			c.SetEvictedCallback(l.cb(in.CB))
		}
	case CAdvance:
		vtime.VAdvance(in.D)
	case CTick:
		if l != nil && l.tick != nil {
			// one tick is handed to the real janitor loop (unbuffered channel: it is taken only when the
			// janitor sits in its select); then wait until the pass it triggers is over
			// (a janitor that arms a fresh timer per round registers a new entry each time: fire the latest)
			if tk := vtime.VCaptured(); len(tk) > 0 {
				l.tick = tk[len(tk)-1]
			}
			if !l.tick.Fire(20 * time.Second) {
				out.N = -7 // the janitor did not take the tick
			} else if !waitJanitorsIdle() {
				out.N = -8
			}
		}
	case CBulkInsert:
		for i := 0; i < bulkN; i++ {
			c.SetForever(1000+i, 5000+i)
		}
	case CBulkDelete:
		for i := 0; i < bulkN; i++ {
			c.Delete(1000 + i)
		}
	default:
		panic("execCacheOp: bad op " + in.Op.String())
	}
	if l != nil {
		out.Fired = l.take()
		if in.Op == CBulkDelete {
			out.Fired = "" // the bulk keys are outside the alphabet; their callbacks are not compared
		}
	}
	return out
}

// cacheSeqInst binds one implementation instance to the reference model.
type cacheSeqInst struct {
	c      CacheLike
	m      CState
	l      *ledger
	events []CIn
	log    []string
	mode   string // which property's oracle is applied (C01: everything but the callback ledger; C06: the ledger)
	keyFn  func(*CState) string
}

func entryClass(s *CState, k int) string {
	switch {
	case !s.Ent[k].P:
		return "absent"
	case s.live(k):
		if s.Ent[k].E == 0 {
			return "live-forever"
		}
		if s.Ent[k].E == s.Now {
			return "live-at-expiry-instant"
		}
		return "live"
	}
	return "expired-uncleaned"
}

func (ci *cacheSeqInst) Apply(ev int, check bool) (string, string) {
	in := ci.events[ev]
	pre := ci.m
	var got COut
	if check && in.Op != CTick {
		// the call under test runs as the only thread of the controlled scheduler, so that a call
		// that cannot return (e.g. a callback invoked under an internal lock re-entering the cache)
		// is reported as a deadlock instead of hanging the harness
		r := sched.Run([]sched.Body{func() { got = execCacheOp(ci.c, in, ci.l, nil) }}, sched.Config{Horizon: 2_000_000})
		if r.Outcome != sched.OComplete {
			ci.log = append(ci.log, fmt.Sprintf("%v -> does not return", in))
			return fmt.Sprintf("%s: the call does not return (%s)", in.Op, r.Outcome), fmt.Sprintf("call %v: %s %s", in, r.Outcome, r.Detail)
		}
	} else {
		got = execCacheOp(ci.c, in, ci.l, nil)
	}
	ex, ns := cacheApply(ci.m, in)
	if !check {
		// replay of a validated prefix: effects only, plus the observation of lazy removals
		ci.m = ns
		for k := 0; k < NKC; k++ {
			if ci.m.Ent[k].P && !ci.m.live(k) {
				phys := ci.c.Physical()
				for j := 0; j < NKC; j++ {
					if _, has := phys[j]; !has && ci.m.Ent[j].P && !ci.m.live(j) {
						ci.m.Ent[j] = CEntry{}
					}
				}
				break
			}
		}
		return "", ""
	}
	line := fmt.Sprintf("%v -> %v", in, got)
	ci.log = append(ci.log, line)
	cls := ""
	if in.Op != CDeleteExpired && in.Op != CRange && in.Op != CItems && in.Op != CClear && in.Op != CCount && in.K < NKC {
		cls = " on " + entryClass(&pre, in.K) + " entry"
	}
	if ci.mode == "C06" {
		if !ex.matches(got, false, false) {
			if ex.matches(got, false, true) {
				return fmt.Sprintf("%s%s: evicted-callback deliveries differ from the specification", in.Op, cls),
					fmt.Sprintf("call %v delivered [%s], specification says [%s] (optional=%v)", in, got.Fired, ex.Out.Fired, ex.FiredOptional)
			}
			return "!other", "" // another property's oracle failed: not counted here, not expanded
		}
	} else if !ex.matches(got, false, ci.mode == "C01") {
		return fmt.Sprintf("%s%s: result differs from the TTL-map semantics (%s)", in.Op, cls, diffFields(ex.Out, got)),
			fmt.Sprintf("call %v returned %v, specification says %v (now=epoch+%d, entry before: %+v)", in, got, ex.Out, pre.Now-epochNs, pre.Ent[in.K%NKC])
	}
	if ci.l.reentryV != "" && ci.mode != "C01" {
		return fmt.Sprintf("%s%s: %s", in.Op, cls, "evicted callback delivered for a value that is still retrievable"), ci.l.reentryV
	}
	ci.m = ns
	// physical agreement: live entries must be there with the exact value and instant; absent ones must
	// be gone; expired ones may have been removed lazily (observed, not specified)
	phys := ci.c.Physical()
	nphys := 0
	for k := 0; k < NKC; k++ {
		pe, has := phys[k]
		if has {
			nphys++
			if pe.E < 0 {
				pe.E = 0 // an instant that overflowed int64 is stored as a non-positive number: "never"
			}
		}
		me := ci.m.Ent[k]
		switch {
		case ci.m.live(k):
			if !has {
				return fmt.Sprintf("%s%s: a live entry was dropped", in.Op, cls), fmt.Sprintf("after %v key k%d (live in the model: %+v) is physically gone", in, k, me)
			}
			if pe.V != int(me.V) || pe.E != me.E {
				return fmt.Sprintf("%s%s: stored value/expiry differs from the specification", in.Op, cls),
					fmt.Sprintf("after %v key k%d holds (v=%d,e=%d), specification says (v=%d,e=%d) [now=%d]", in, k, pe.V, pe.E, me.V, me.E, ci.m.Now)
			}
		case !me.P:
			if has {
				return fmt.Sprintf("%s%s: an entry exists that should be absent", in.Op, cls), fmt.Sprintf("after %v key k%d is physically present (v=%d,e=%d) but absent in the model", in, k, pe.V, pe.E)
			}
		default: // expired, possibly cleaned lazily
			if !has {
				ci.m.Ent[k] = CEntry{}
			} else if pe.V != int(me.V) || pe.E != me.E {
				return fmt.Sprintf("%s%s: expired entry changed", in.Op, cls), fmt.Sprintf("after %v key k%d holds (v=%d,e=%d), model (v=%d,e=%d)", in, k, pe.V, pe.E, me.V, me.E)
			}
		}
	}
	// Count agrees with the number of physically present entries and never under-reports live ones
	cnt := ci.c.Count()
	extra := len(phys) - nphys
	wantExtra := 0
	if ci.m.Bulk {
		wantExtra = bulkN
	}
	if cnt != len(phys) || extra != wantExtra {
		return fmt.Sprintf("%s: Count disagrees with the entries physically present", in.Op), fmt.Sprintf("after %v Count()=%d, physical entries=%d (alphabet %d, others %d want %d)", in, cnt, len(phys), nphys, extra, wantExtra)
	}
	if in.Op == CDeleteExpired || (in.Op == CTick && ci.m.Jan) {
		for k := 0; k < NKC; k++ {
			if ci.m.Ent[k].P && !ci.m.live(k) {
				return "DeleteExpired: an expired entry survived", fmt.Sprintf("k%d", k)
			}
		}
	}
	if in.Op == CClear && cnt != 0 {
		return "Clear: Count is not 0 right after Clear", fmt.Sprint(cnt)
	}
	return "", ""
}

func diffFields(want, got COut) string {
	var f []string
	if want.Ok != got.Ok {
		f = append(f, fmt.Sprintf("flag got %v want %v", got.Ok, want.Ok))
	}
	if want.V != got.V {
		if want.V == 0 {
			f = append(f, "value returned where none is due")
		} else if got.V == 0 {
			f = append(f, "value missing")
		} else {
			f = append(f, "wrong value")
		}
	}
	if want.Exp != got.Exp {
		f = append(f, "expiration instant")
	}
	if want.TTL != got.TTL {
		f = append(f, "ttl")
	}
	if want.N != got.N {
		f = append(f, "count")
	}
	if want.FnCalls != got.FnCalls {
		f = append(f, "user function call count")
	}
	if want.FnOld != got.FnOld || want.FnLd != got.FnLd {
		f = append(f, "arguments given to user function")
	}
	if want.Fired != got.Fired {
		f = append(f, "evicted callbacks")
	}
	if want.Pairs != got.Pairs {
		f = append(f, "visited entries")
	}
	return strings.Join(f, ", ")
}

func (ci *cacheSeqInst) Key() string { return ci.keyFn(&ci.m) }

var closedInstances int

func (ci *cacheSeqInst) Close() {
	ci.l.c = nil
	ci.c = nil
	if ci.m.Jan {
		// released caches with a janitor keep a goroutine until their finalizer ran
		closedInstances++
		if closedInstances%256 == 0 {
			runtime.GC()
			runtime.GC()
		}
	}
}
func (ci *cacheSeqInst) Log() []string {
	return append([]string{}, ci.log...)
}

// canonical key with expiries relative to now (sound because the implementation only ever
// compares stored instants with the current instant)
func relKey(s *CState) string {
	var sb strings.Builder
	for k := 0; k < NKC; k++ {
		e := s.Ent[k]
		switch {
		case !e.P:
			sb.WriteString("-|")
		case e.E == 0:
			fmt.Fprintf(&sb, "%d:never|", e.V)
		case s.Now > e.E:
			fmt.Fprintf(&sb, "%d:expired|", e.V)
		default:
			fmt.Fprintf(&sb, "%d:+%d|", e.V, e.E-s.Now)
		}
	}
	fmt.Fprintf(&sb, "def=%d cb=%d bulk=%v jan=%v", s.Def, s.CB, s.Bulk, s.Jan)
	return sb.String()
}

// newCacheSeqSpec builds the E2 job for one constructor configuration and alphabet.
func newCacheSeqSpec(name string, cfg CacheCfg, defAtStart time.Duration, cbAtStart bool, events []CIn, maxDepth int, mode string) *SeqSpec {
	return newCacheSeqSpecFrom(name, cfg, defAtStart, cbAtStart, nil, events, maxDepth, mode)
}

// newCacheSeqSpecFrom: the search starts from the state a fixed prologue of calls leaves behind
// (a non-initial state); the prologue's own results are not judged here.
func newCacheSeqSpecFrom(name string, cfg CacheCfg, defAtStart time.Duration, cbAtStart bool, prologue, alphabet []CIn, maxDepth int, mode string) *SeqSpec {
	names := make([]string, len(alphabet))
	for i, e := range alphabet {
		names[i] = e.String()
	}
	events := append(append([]CIn{}, alphabet...), prologue...)
	return &SeqSpec{Name: name, Events: names, MaxDepth: maxDepth, New: func() SeqInst {
		vtime.VEnable(epochNs)
		vtime.VCaptureTickers(true) // a janitor started by the constructor variant under test never fires here
		installDetHash(11)
		l := &ledger{}
		c2 := cfg
		if cbAtStart {
			c2.Callback = l.cb(1)
		}
		c := newCache(c2)
		l.c = c
		m := CState{Now: epochNs, Def: defAtStart}
		if mode == "C15" || cfg.Ivl > 0 {
			waitJanitorsIdle() // the janitor goroutine creates its ticker itself: let it get there
		}
		if tk := vtime.VCaptured(); len(tk) == 1 {
			l.tick = tk[0]
			m.Jan = true
		}
		if cbAtStart {
			m.CB = 1
		}
		ci := &cacheSeqInst{c: c, m: m, l: l, events: events, keyFn: relKey, mode: mode}
		for i := range prologue {
			ci.Apply(len(alphabet)+i, false)
		}
		return ci
	}}
}

// waitJanitorsIdle returns once every goroutine that has a frame of package
// cache (the janitors) is blocked in its select again. There is no hook at the
// end of a cleanup pass, so the goroutine dump is the observation; the loop is
// bounded by iterations, not by a time-out oracle.
func waitJanitorsIdle() bool {
	buf := make([]byte, 1<<20)
	stuck := 0
	for iter := 0; iter < 200000; iter++ {
		n := runtime.Stack(buf, true)
		for n == len(buf) {
			buf = make([]byte, 2*len(buf))
			n = runtime.Stack(buf, true)
		}
		busy := false
		for gi, g := range strings.Split(string(buf[:n]), "\n\n") {
			if gi == 0 || !strings.Contains(g, "github.com/fufuok/cache.") {
				continue // the first entry is the calling goroutine
			}
			hdr := g
			if i := strings.IndexByte(g, '\n'); i >= 0 {
				hdr = g[:i]
			}
			// idle = parked in a select or a channel receive of the janitor's own loop (the innermost frame that
			// is not the runtime's belongs to package cache), whichever way the loop is written
			idle := false
			if strings.Contains(hdr, "[select") || strings.Contains(hdr, "[chan receive") {
				for _, ln := range strings.Split(g, "\n")[1:] {
					if strings.HasPrefix(ln, "\t") || strings.HasPrefix(ln, "runtime.") || strings.HasPrefix(ln, "time.") {
						continue // file:line rows, runtime frames
					}
					idle = strings.HasPrefix(ln, "github.com/fufuok/cache.")
					break
				}
			}
			if !idle {
				busy = true
				// waiting for a lock / semaphore / channel other than its select: nobody is left who could
				// release it (the calling goroutine is the only other party and it is here, polling)
				if strings.Contains(hdr, "[sync.") || strings.Contains(hdr, "[semacquire") || strings.Contains(hdr, "[chan ") {
					stuck++
				} else {
					stuck = 0
				}
				break
			}
		}
		if !busy {
			return true
		}
		if stuck >= 200 {
			return false
		}
		runtime.Gosched()
	}
	return false
}
