package main

import (
	"fmt"
	"sort"
	"strings"
	"time"

	"github.com/anishathalye/porcupine"
)

// ---- sequential reference for Cache / CacheOf: a TTL map ----
//
// The model is deliberately boring: per key (value, absolute expiry, physically
// present). An entry is live iff present && (E == 0 || now <= E). Expired
// entries that were not yet removed are tracked only because Count and the
// evicted callback can observe them; every value-returning call treats them
// as absent (C01).

const NKC = 3

const (
	durNoExp = -2 * time.Second
	durDef   = -1 * time.Second
)

type COp uint8

const (
	CSet COp = iota
	CSetDefault
	CSetForever
	CGet
	CGetWithExpiration
	CGetWithTTL
	CGetOrSet
	CGetAndSet
	CGetAndRefresh
	CGetOrCompute
	CCompute
	CGetAndDelete
	CDelete
	CDeleteExpired
	CDelExpKey // pseudo: what one DeleteExpired pass did to one key
	CRange
	CRangeVisit // pseudo: what one traversal reported for one key
	CRangeNil
	CItems
	CClear
	CCount
	CSetDefaultExpiration
	CDefaultExpiration
	CSetCallback
	CAdvance
	CBulkInsert // macro: insert N forever-keys outside the alphabet (forces grows)
	CBulkDelete // macro: delete them again (forces shrinks)
	CTick       // the janitor's ticker fires once (a no-op if the cache has no janitor)
)

var copNames = [...]string{"Set", "SetDefault", "SetForever", "Get", "GetWithExpiration", "GetWithTTL", "GetOrSet", "GetAndSet",
	"GetAndRefresh", "GetOrCompute", "Compute", "GetAndDelete", "Delete", "DeleteExpired", "DeleteExpired@key", "Range", "Range@key", "Range(nil)",
	"Items", "Clear", "Count", "SetDefaultExpiration", "DefaultExpiration", "SetEvictedCallback", "Advance", "BulkInsert", "BulkDelete", "Tick"}

func (o COp) String() string { return copNames[o] }

type CIn struct {
	Op   COp
	K    int
	V    int
	D    time.Duration // ttl argument, default for SetDefaultExpiration, step for Advance
	Fn   FnKind
	Stop int // Range: stop after this many visits (0 = never)
	CB   int // SetCallback: 0 none, 1 A, 2 B
}

func durStr(d time.Duration) string {
	switch d {
	case durNoExp:
		return "NoExp"
	case durDef:
		return "Default"
	}
	return d.String()
}

func (in CIn) String() string {
	switch in.Op {
	case CSet, CGetOrSet, CGetAndSet, CGetOrCompute:
		return fmt.Sprintf("%s(k%d,%d,%s)", in.Op, in.K, in.V, durStr(in.D))
	case CSetDefault, CSetForever:
		return fmt.Sprintf("%s(k%d,%d)", in.Op, in.K, in.V)
	case CGet, CGetWithExpiration, CGetWithTTL, CGetAndDelete, CDelete, CDelExpKey, CRangeVisit:
		return fmt.Sprintf("%s(k%d)", in.Op, in.K)
	case CGetAndRefresh:
		return fmt.Sprintf("%s(k%d,%s)", in.Op, in.K, durStr(in.D))
	case CCompute:
		return fmt.Sprintf("Compute(k%d,%s %d,%s)", in.K, fnNames[in.Fn], in.V, durStr(in.D))
	case CRange:
		if in.Stop > 0 {
			return fmt.Sprintf("Range(stop after %d)", in.Stop)
		}
	case CSetDefaultExpiration, CAdvance:
		return fmt.Sprintf("%s(%s)", in.Op, durStr(in.D))
	case CSetCallback:
		return fmt.Sprintf("SetEvictedCallback(%d)", in.CB)
	}
	return in.Op.String()
}

// COut: everything observable about one call (comparable with ==).
type COut struct {
	V       int
	Ok      bool
	Exp     int64 // GetWithExpiration: UnixNano of the reported instant, 0 = zero time
	TTL     int64 // GetWithTTL / DefaultExpiration
	N       int   // Count, number of Range visits
	FnCalls int
	FnOld   int
	FnLd    bool
	Fired   string // callbacks fired during the call: "cb:k=v;" sorted
	Pairs   string // Range/Items: sorted "k=v "
}

func (o COut) String() string {
	s := fmt.Sprintf("(%d,%v)", o.V, o.Ok)
	if o.Exp != 0 {
		s += fmt.Sprintf(" exp=%d", o.Exp)
	}
	if o.TTL != 0 {
		s += fmt.Sprintf(" ttl=%d", o.TTL)
	}
	if o.N != 0 {
		s += fmt.Sprintf(" n=%d", o.N)
	}
	if o.FnCalls > 0 {
		s += fmt.Sprintf(" fn×%d(old=%d,loaded=%v)", o.FnCalls, o.FnOld, o.FnLd)
	}
	if o.Fired != "" {
		s += " fired[" + o.Fired + "]"
	}
	if o.Pairs != "" {
		s += " {" + o.Pairs + "}"
	}
	return s
}

type CEntry struct {
	V int32
	E int64 // absolute expiry (virtual ns), 0 = never
	P bool  // physically present
}

type CState struct {
	Ent  [NKC]CEntry
	Now  int64
	Def  time.Duration
	CB   int8
	Bulk bool // the bulk keys are present
	Jan  bool // the cache has a janitor (cleanup interval > 0)
}

func (s *CState) live(k int) bool {
	e := s.Ent[k]
	return e.P && (e.E == 0 || s.Now <= e.E)
}

func (s *CState) expiredPresent(k int) bool {
	e := s.Ent[k]
	return e.P && e.E != 0 && s.Now > e.E
}

func (s *CState) expiry(d time.Duration) int64 {
	if d == durDef {
		d = s.Def
	}
	if d > 0 {
		e := s.Now + int64(d)
		if e < s.Now {
			// the instant is beyond what int64 nanoseconds can represent: such an entry never expires
			return 0
		}
		return e
	}
	return 0
}

func firedStr(cb int8, k int, v int32) string {
	if cb == 0 {
		return ""
	}
	return fmt.Sprintf("cb%d:k%d=%d;", cb, k, v)
}

// CExpect is what the specification says about one call.
type CExpect struct {
	Out COut
	// FiredOptional: the call may or may not deliver Out.Fired (removal of an
	// expired entry by GetAndDelete: the statement only bounds it from above).
	FiredOptional bool
	// MayRemove: keys whose expired, not yet cleaned entry this call is allowed
	// (not required) to remove physically (lazy deletion is observed, not specified).
	MayRemove []int
	// RangeLoose: for Range with early stop the visited set is any subset of the
	// live entries of size N (Pairs holds all live entries).
	RangeLoose bool
	bulk       bool // bulk keys present: an early-stopped Range may have spent visits on them
}

// cacheApply is the sequential specification.
func cacheApply(s CState, in CIn) (CExpect, CState) {
	var ex CExpect
	k := in.K
	store := func(v int, d time.Duration) {
		s.Ent[k] = CEntry{V: int32(v), E: s.expiry(d), P: true}
	}
	lazily := func() {
		if s.expiredPresent(k) {
			ex.MayRemove = append(ex.MayRemove, k)
		}
	}
	switch in.Op {
	case CSet:
		store(in.V, in.D)
	case CSetDefault:
		store(in.V, durDef)
	case CSetForever:
		store(in.V, durNoExp)
	case CGet:
		if s.live(k) {
			ex.Out = COut{V: int(s.Ent[k].V), Ok: true}
		}
		lazily()
	case CGetWithExpiration:
		if s.live(k) {
			ex.Out = COut{V: int(s.Ent[k].V), Ok: true, Exp: s.Ent[k].E}
		}
		lazily()
	case CGetWithTTL:
		if s.live(k) {
			ex.Out = COut{V: int(s.Ent[k].V), Ok: true, TTL: int64(durNoExp)}
			if s.Ent[k].E != 0 {
				ex.Out.TTL = s.Ent[k].E - s.Now
			}
		}
		lazily()
	case CGetOrSet:
		if s.live(k) {
			ex.Out = COut{V: int(s.Ent[k].V), Ok: true}
		} else {
			store(in.V, in.D)
			ex.Out = COut{V: in.V}
		}
	case CGetAndSet:
		if s.live(k) {
			ex.Out = COut{V: int(s.Ent[k].V), Ok: true}
		} else {
			ex.Out = COut{V: in.V}
		}
		store(in.V, in.D)
	case CGetAndRefresh:
		if s.live(k) {
			ex.Out = COut{V: int(s.Ent[k].V), Ok: true}
			s.Ent[k].E = s.expiry(in.D)
		} else {
			lazily()
		}
	case CGetOrCompute:
		if s.live(k) {
			ex.Out = COut{V: int(s.Ent[k].V), Ok: true}
		} else {
			store(in.V, in.D)
			ex.Out = COut{V: in.V, FnCalls: 1}
		}
	case CCompute:
		old, ld := 0, false
		if s.live(k) {
			old, ld = int(s.Ent[k].V), true
		}
		nv, del := applyFn(in.Fn, in.V, old, ld)
		ex.Out = COut{FnCalls: 1, FnOld: old, FnLd: ld}
		if del {
			ex.Out.V = old
			if ld {
				s.Ent[k] = CEntry{}
			} else {
				lazily()
			}
		} else {
			store(nv, in.D)
			ex.Out.V, ex.Out.Ok = nv, true
		}
	case CGetAndDelete:
		if s.live(k) {
			ex.Out = COut{V: int(s.Ent[k].V), Ok: true, Fired: firedStr(s.CB, k, s.Ent[k].V)}
			s.Ent[k] = CEntry{}
		} else if s.expiredPresent(k) {
			// the expired entry is removed; reported as absent; the callback may be delivered for it
			ex.Out = COut{Fired: firedStr(s.CB, k, s.Ent[k].V)}
			ex.FiredOptional = true
			s.Ent[k] = CEntry{}
		}
	case CDelete:
		if s.Ent[k].P {
			// live or expired-uncleaned: the entry is removed (Count drops), the callback fires once
			ex.Out = COut{Fired: firedStr(s.CB, k, s.Ent[k].V)}
			s.Ent[k] = CEntry{}
		}
	case CTick:
		if !s.Jan {
			break
		}
		fallthrough
	case CDeleteExpired:
		var f []string
		for i := 0; i < NKC; i++ {
			if s.expiredPresent(i) {
				if x := firedStr(s.CB, i, s.Ent[i].V); x != "" {
					f = append(f, x)
				}
				s.Ent[i] = CEntry{}
			}
		}
		sort.Strings(f)
		ex.Out = COut{Fired: strings.Join(f, "")}
	case CDelExpKey:
		if s.expiredPresent(k) {
			ex.Out = COut{Fired: firedStr(s.CB, k, s.Ent[k].V)}
			s.Ent[k] = CEntry{}
		}
	case CRange, CItems:
		m := map[int]int{}
		for i := 0; i < NKC; i++ {
			if s.live(i) {
				m[i] = int(s.Ent[i].V)
			}
		}
		total := len(m)
		if s.Bulk {
			total += bulkN // the bulk keys (outside the alphabet) are visited too
		}
		ex.Out = COut{Pairs: sortedPairs(m), N: total}
		if in.Op == CRange && in.Stop > 0 && in.Stop < total {
			ex.Out.N = in.Stop
			ex.RangeLoose = true
			ex.bulk = s.Bulk
		}
	case CRangeVisit:
		if s.live(k) {
			ex.Out = COut{V: int(s.Ent[k].V), Ok: true}
		}
		lazily() // a traversal that meets an expired entry may clean it up (observed, not specified)
	case CRangeNil:
	case CClear:
		for i := range s.Ent {
			s.Ent[i] = CEntry{}
		}
		s.Bulk = false
	case CCount:
		n := 0
		for i := range s.Ent {
			if s.Ent[i].P {
				n++
			}
		}
		if s.Bulk {
			n += bulkN
		}
		ex.Out = COut{N: n}
	case CSetDefaultExpiration:
		s.Def = in.D
	case CDefaultExpiration:
		ex.Out = COut{TTL: int64(s.Def)}
	case CSetCallback:
		s.CB = int8(in.CB)
	case CAdvance:
		s.Now += int64(in.D)
	case CBulkInsert:
		s.Bulk = true
	case CBulkDelete:
		s.Bulk = false
	default:
		panic("cacheApply: bad op")
	}
	return ex, s
}

const bulkN = 130

// matches reports whether an observed output is allowed by the expectation.
func (ex *CExpect) matches(got COut, ignoreFn, ignoreFired bool) bool {
	want := ex.Out
	if ignoreFn {
		want.FnCalls, want.FnOld, want.FnLd = 0, 0, false
		got.FnCalls, got.FnOld, got.FnLd = 0, 0, false
	}
	if ignoreFired {
		want.Fired, got.Fired = "", ""
	}
	if ex.FiredOptional && got.Fired == "" {
		want.Fired = ""
	}
	if ex.RangeLoose {
		// got.Pairs must be N distinct live entries
		if got.N != want.N {
			return false
		}
		cnt := 0
		for _, p := range strings.Fields(got.Pairs) {
			if !strings.Contains(" "+want.Pairs, " "+p+" ") {
				return false
			}
			cnt++
		}
		return cnt == want.N || (ex.bulk && cnt <= want.N)
	}
	return want == got
}

// cacheLinModel is the (nondeterministic: lazy removal of expired entries may
// or may not happen) porcupine model used for concurrent histories.
func cacheLinModel(init CState, ignoreFn, ignoreFired bool) porcupine.Model {
	nm := porcupine.NondeterministicModel{
		Init: func() []interface{} { return []interface{}{init} },
		Step: func(state, input, output interface{}) []interface{} {
			ex, ns := cacheApply(state.(CState), input.(CIn))
			if !ex.matches(output.(COut), ignoreFn, ignoreFired) {
				return nil
			}
			out := []interface{}{ns}
			for _, k := range ex.MayRemove {
				alt := ns
				alt.Ent[k] = CEntry{}
				out = append(out, alt)
			}
			return out
		},
		Equal: func(a, b interface{}) bool { return a.(CState) == b.(CState) },
		DescribeOperation: func(in, out interface{}) string {
			return fmt.Sprintf("%v -> %v", in, out)
		},
	}
	return nm.ToModel()
}
