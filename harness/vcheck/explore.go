package main

import (
	"fmt"
	"sort"
	"strings"
	"time"

	"github.com/fufuok/cache/internal/vshim/sched"
)

// Instance is one freshly built copy of a scenario (prologue already run in
// pass-through mode).
type Instance struct {
	Bodies []sched.Body
	// Finish runs the quiescent epilogue after a complete execution and
	// checks the oracles. outcome is a canonical digest of everything that
	// was observed (used to count distinct outcomes); viols lists the oracle
	// classes that failed (the scenario's Classes mask decides which of them
	// count for the property being checked).
	Finish func(res *sched.Result) (outcome string, viols []OViol)
	// Describe returns a human-readable history of the execution (for replay files).
	Describe func() []string
}

// Oracle classes. A property's check only counts the classes that state that property.
const (
	OLin    = 1 << iota // history linearizable w.r.t. the sequential reference (incl. final reads)
	OFn                 // user-function invocation counts / arguments
	ORange              // traversal: at most once per key, genuine values, quiescent Range == Loads
	OCount              // quiescent Size/Count == physical entries
	OTerm               // termination: deadlock, horizon, epilogue hang
	OMon                // C16 monitors
	OLedger             // evicted-callback ledger
	ORace               // the Go race detector reported a data race during the execution
	OAll    = 0xffff
)

type OViol struct {
	Class  int
	Detail string
}

// Scenario is a closed concurrent program: a deterministic builder of instances.
type Scenario struct {
	Seq *SeqSpec // non-nil: an E2 (sequence search) job instead of a schedule exploration
	// PostRun is called after every execution (complete or not); a non-empty result is a
	// violation of kind "race" observed during that execution.
	PostRun        func() string
	Classes        int // oracle classes that decide the property this scenario is run for
	ExpectOutcomes int // vacuity guard: at least this many distinct outcomes are expected
	Name           string
	Prop           string // property the scenario family belongs to
	New            func() *Instance
	NoBlock        []bool
	MaxSteps       []int
	// PreemptBound >= 0 switches to preemption-bounded search without state caching merge across bounds.
	PreemptBound int
	MaxStates    int // 0 = default cap
	Horizon      int
	// ExpectResize etc.: vacuity expectations are checked inside Finish.
}

type Violation struct {
	Scenario  string   `json:"scenario"`
	Kind      string   `json:"kind"` // oracle | deadlock | horizon | panic | monitor
	Signature string   `json:"signature"`
	Detail    string   `json:"detail"`
	Choices   []uint8  `json:"choices"`
	History   []string `json:"history,omitempty"`
	Schedule  []string `json:"schedule,omitempty"`
	Events    []int    `json:"events,omitempty"` // E2: the event sequence
}

type ExploreStats struct {
	Scenario        string         `json:"scenario"`
	Executions      int            `json:"executions"`
	Complete        int            `json:"complete"`
	Pruned          int            `json:"pruned"`
	States          int            `json:"states"`
	Transitions     int            `json:"transitions"`
	MaxDepth        int            `json:"max_depth"`
	Outcomes        map[string]int `json:"outcomes"`
	Exhaustive      bool           `json:"exhaustive"`
	CapHit          string         `json:"cap_hit,omitempty"`
	BoundDone       int            `json:"preemption_bound_completed"` // -1 = unbounded
	Violations      []Violation    `json:"violations,omitempty"`
	Infra           string         `json:"infra,omitempty"`
	WallMs          int64          `json:"wall_ms"`
	MaxPreempt      int            `json:"max_preemptions_seen"`
	SampleSched     []string       `json:"sample_schedule,omitempty"`
	SampleHist      []string       `json:"sample_history,omitempty"`
	ThreadSteps     []int          `json:"thread_steps,omitempty"`
	Deterministic   bool           `json:"determinism_checked"`
	OutcomeCount    int            `json:"outcome_count,omitempty"`
	Fallback        string         `json:"fallback,omitempty"`
	UnboundedStates int            `json:"unbounded_states_before_fallback,omitempty"`
	OtherObs        int            `json:"observations_for_other_properties"` // oracle classes that belong to other properties failed (not counted here)
}

type ExploreOpts struct {
	Deadline      time.Time
	MaxStates     int
	MaxViolations int
	NoCache       bool
	FallbackBound int // preemption bound used when the unbounded search exceeds MaxStates (0 = no fallback)
}

// ExploreAuto explores without a preemption bound; if the state cap is hit it
// falls back to exploring every schedule with at most FallbackBound preemptions.
func ExploreAuto(sc *Scenario, opts ExploreOpts) *ExploreStats {
	st := Explore(sc, opts)
	if sc.PreemptBound > 1 && !st.Exhaustive && len(st.Violations) == 0 && st.Infra == "" && strings.HasPrefix(st.CapHit, "state cap") {
		for b := sc.PreemptBound - 1; b >= 1; b-- {
			sc2 := *sc
			sc2.PreemptBound = b
			s2 := Explore(&sc2, opts)
			s2.States += st.States
			s2.Transitions += st.Transitions
			s2.Executions += st.Executions
			s2.Fallback = fmt.Sprintf("bound %d exceeded the state cap; completed all schedules with <= %d preemptions", sc.PreemptBound, b)
			st = s2
			if s2.Exhaustive || !strings.HasPrefix(s2.CapHit, "state cap") {
				break
			}
		}
		return st
	}
	if st.Exhaustive || opts.FallbackBound == 0 || len(st.Violations) > 0 || st.Infra != "" || sc.PreemptBound > 0 || !strings.HasPrefix(st.CapHit, "state cap") {
		return st
	}
	var st2 *ExploreStats
	for b := opts.FallbackBound; b >= 1; b-- {
		sc2 := *sc
		sc2.PreemptBound = b
		o2 := opts
		o2.MaxStates = boundedStateCap
		st2 = Explore(&sc2, o2)
		if st2.Exhaustive || len(st2.Violations) > 0 || st2.Infra != "" || !strings.HasPrefix(st2.CapHit, "state cap") {
			break
		}
		// even the bounded search is too large for the memory cap: complete a smaller bound instead
		st.States += st2.States
		st.Transitions += st2.Transitions
		st.Executions += st2.Executions
	}
	st2.UnboundedStates = st.States
	st2.States += st.States
	st2.Transitions += st.Transitions
	st2.Executions += st.Executions
	st2.Complete += st.Complete
	st2.Pruned += st.Pruned
	st2.WallMs += st.WallMs
	for k, v := range st.Outcomes {
		st2.Outcomes[k] += v
	}
	if st.MaxDepth > st2.MaxDepth {
		st2.MaxDepth = st.MaxDepth
	}
	if st.MaxPreempt > st2.MaxPreempt {
		st2.MaxPreempt = st.MaxPreempt
	}
	st2.Fallback = fmt.Sprintf("unbounded search stopped at the state cap; completed all schedules with <= %d preemptions instead", st2.BoundDone)
	return st2
}

const defaultMaxStates = 3_000_000

// boundedStateCap limits the visited set of one preemption-bounded search (9 bytes per state, 16 workers).
const boundedStateCap = 8_000_000

// noSleepSets disables the sleep-set reduction (used to cross-check it).
var noSleepSets = false

func runOnce(sc *Scenario, prefix []uint8, lastSleep uint8, visited *sched.StateSet, record bool) (*sched.Result, *Instance) {
	inst := sc.New()
	cfg := sched.Config{Prefix: prefix, LastSleep: lastSleep, Visited: visited, Horizon: sc.Horizon, NoBlock: sc.NoBlock, MaxSteps: sc.MaxSteps, RecordTrace: record,
		SaltPreempt: sc.PreemptBound > 0, UseSleep: visited != nil && sc.PreemptBound == 0 && !noSleepSets}
	res := sched.Run(inst.Bodies, cfg)
	return res, inst
}

func scheduleStrings(res *sched.Result) []string {
	var out []string
	// compress runs of the same thread
	i := 0
	for i < len(res.Trace) {
		j := i
		for j < len(res.Trace) && res.Trace[j].Tid == res.Trace[i].Tid {
			j++
		}
		s := fmt.Sprintf("T%d:", res.Trace[i].Tid)
		for k := i; k < j; k++ {
			st := res.Trace[k]
			if st.Obj >= 0 {
				s += fmt.Sprintf(" %s@o%d", st.Kind, st.Obj)
			} else {
				s += " " + st.Kind.String()
			}
		}
		out = append(out, s)
		i = j
	}
	return out
}

// replayViolation re-executes a choice sequence without the explorer and
// returns the violation it produces ("" if none).
func replayChoices(sc *Scenario, choices []uint8) (kind, detail string, res *sched.Result, inst *Instance) {
	res, inst = runOnce(sc, choices, 0, nil, true)
	if sc.PostRun != nil {
		if d := sc.PostRun(); d != "" {
			return "race", d, res, inst
		}
	}
	switch res.Outcome {
	case sched.OComplete:
		_, vs := inst.Finish(res)
		if v := pickViol(sc, vs); v != "" {
			return "oracle", v, res, inst
		}
		return "", "", res, inst
	case sched.ODeadlock:
		if sc.Classes&OTerm != 0 {
			return "deadlock", res.Detail, res, inst
		}
	case sched.OHorizon:
		if sc.Classes&OTerm != 0 {
			return "horizon", res.Detail, res, inst
		}
	case sched.OPanic:
		return "panic", res.Detail, res, inst
	case sched.OMonitor:
		if sc.Classes&OMon != 0 {
			return "monitor", res.Detail, res, inst
		}
	case sched.OInfra:
		return "infra", res.Detail, res, inst
	}
	return "", "", res, inst
}

func pickViol(sc *Scenario, vs []OViol) string {
	for _, v := range vs {
		if v.Class&sc.Classes != 0 {
			return v.Detail
		}
	}
	return ""
}

func choicesOf(res *sched.Result) []uint8 {
	c := make([]uint8, len(res.Points))
	for i, p := range res.Points {
		c[i] = p.Tid
	}
	return c
}

// Explore enumerates all schedules of the scenario (depth-first over choice
// sequences, with happens-before state caching) and evaluates the oracles on
// every complete execution.
func Explore(sc *Scenario, opts ExploreOpts) *ExploreStats {
	t0 := time.Now()
	st := &ExploreStats{Scenario: sc.Name, Outcomes: map[string]int{}, Exhaustive: true, BoundDone: -1}
	maxStates := opts.MaxStates
	if sc.MaxStates > 0 {
		maxStates = sc.MaxStates
	}
	if maxStates == 0 {
		maxStates = defaultMaxStates
	}
	if sc.PreemptBound > 0 && maxStates < boundedStateCap {
		maxStates = boundedStateCap // a bounded search is finite by construction; the cap only protects memory (16 workers)
	}
	if opts.MaxViolations == 0 {
		opts.MaxViolations = 3
	}
	var visited *sched.StateSet
	bounded := sc.PreemptBound > 0
	if !opts.NoCache {
		visited = sched.NewStateSet()
	}
	// a pending alternative = the first idx choices of an earlier run (shared array) + one different choice
	type item struct {
		run      []uint8
		idx      int32
		tid      uint8
		sleep    uint8
		preempts int32
	}
	stack := []item{{nil, -1, 0, 0, 0}}
	var prefixBuf []uint8
	seenViol := map[string]bool{}
	first := true
	for len(stack) > 0 {
		it := stack[len(stack)-1]
		stack = stack[:len(stack)-1]
		prefixBuf = prefixBuf[:0]
		if it.idx >= 0 {
			prefixBuf = append(append(prefixBuf, it.run[:it.idx]...), it.tid)
		}
		itPrefix := prefixBuf
		res, inst := runOnce(sc, itPrefix, it.sleep, visited, false)
		st.Executions++
		newFrom := len(itPrefix) - 1
		if newFrom < 0 {
			newFrom = 0
		}
		st.Transitions += len(res.Points) - newFrom
		if len(res.Points) > st.MaxDepth {
			st.MaxDepth = len(res.Points)
		}
		var vkind, vdetail string
		if sc.PostRun != nil {
			if d := sc.PostRun(); d != "" {
				if strings.HasPrefix(d, "INFRA") {
					st.Infra = d
					st.Exhaustive = false
					st.WallMs = time.Since(t0).Milliseconds()
					return st
				}
				vkind, vdetail = "race", d
			}
		}
		switch res.Outcome {
		case sched.OComplete:
			st.Complete++
			out, vs := inst.Finish(res)
			st.Outcomes[out]++
			for _, v := range vs {
				if v.Class&sc.Classes == 0 {
					st.OtherObs++
				}
			}
			if v := pickViol(sc, vs); v != "" && vkind == "" {
				vkind, vdetail = "oracle", v
			}
			np := 0
			for _, p := range res.Points {
				if p.Preempt {
					np++
				}
			}
			if np > st.MaxPreempt {
				st.MaxPreempt = np
			}
			if first {
				first = false
				// determinism obligation: the same choices must reproduce the same run
				ch := choicesOf(res)
				r2, i2 := runOnce(sc, ch, 0, nil, true)
				out2 := ""
				if r2.Outcome == sched.OComplete {
					out2, _ = i2.Finish(r2)
				}
				if r2.Outcome != sched.OComplete || out2 != out || len(r2.Points) != len(res.Points) {
					st.Infra = fmt.Sprintf("nondeterminism not owned: replay of first execution differs (%s/%d vs %s/%d)", out, len(res.Points), out2, len(r2.Points))
					st.Exhaustive = false
					st.WallMs = time.Since(t0).Milliseconds()
					return st
				}
				for i := range r2.Points {
					if r2.Points[i].Tid != res.Points[i].Tid || r2.Points[i].Kind != res.Points[i].Kind {
						st.Infra = fmt.Sprintf("nondeterminism not owned: step %d differs on replay", i)
						st.Exhaustive = false
						st.WallMs = time.Since(t0).Milliseconds()
						return st
					}
				}
				st.Deterministic = true
				st.SampleSched = scheduleStrings(r2)
				if i2.Describe != nil {
					st.SampleHist = i2.Describe()
				}
				st.ThreadSteps = r2.ThreadOp
			}
		case sched.OPruned:
			st.Pruned++
		case sched.ODeadlock:
			if sc.Classes&OTerm != 0 {
				vkind, vdetail = "deadlock", res.Detail
			} else {
				st.OtherObs++
			}
		case sched.OHorizon:
			if sc.Classes&OTerm != 0 {
				vkind, vdetail = "horizon", res.Detail
			} else {
				st.OtherObs++
			}
		case sched.OPanic:
			vkind, vdetail = "panic", res.Detail
		case sched.OMonitor:
			if sc.Classes&OMon != 0 {
				vkind, vdetail = "monitor", res.Detail
			} else {
				st.OtherObs++
			}
		case sched.OInfra:
			st.Infra = res.Detail
			st.Exhaustive = false
			st.WallMs = time.Since(t0).Milliseconds()
			return st
		}
		if vkind != "" {
			sig := vkind + "|" + firstLine(vdetail)
			if !seenViol[sig] {
				seenViol[sig] = true
				ch := choicesOf(res)
				// a violation is only believed if it reproduces 5 times from its recorded choices
				ok := true
				var rr *sched.Result
				var ri *Instance
				for k := 0; k < 5 && vkind != "race"; k++ { // the race detector reports each race once per process
					k2, _, r, i := replayChoices(sc, ch)
					if k2 != vkind {
						ok = false
						st.Infra = fmt.Sprintf("violation %q did not reproduce on replay %d (got %q)", vkind, k, k2)
						break
					}
					rr, ri = r, i
				}
				if !ok {
					st.Exhaustive = false
					st.WallMs = time.Since(t0).Milliseconds()
					return st
				}
				if vkind == "race" {
					rr, ri = runOnce(sc, ch, 0, nil, true)
					sc.PostRun()
				}
				v := Violation{Scenario: sc.Name, Kind: vkind, Detail: vdetail, Choices: ch, Schedule: scheduleStrings(rr),
					Signature: vkind + ": " + firstLine(vdetail) + " @ " + sc.Name}
				if vkind == "race" {
					v.Signature = raceSignature(vdetail)
				}
				if ri != nil && ri.Describe != nil {
					v.History = ri.Describe()
				}
				st.Violations = append(st.Violations, v)
			}
			if len(st.Violations) >= opts.MaxViolations {
				st.Exhaustive = false
				st.CapHit = "stopped after max violations"
				break
			}
		}
		// push the unexplored alternatives of every decision point beyond the prefix
		base := len(itPrefix)
		cnt := int(it.preempts)
		var runTids []uint8
		for i := base; i < len(res.Points); i++ {
			p := res.Points[i]
			alts := p.Enabled &^ p.Sleep &^ (1 << p.Tid)
			if alts != 0 {
				cost := cnt
				if p.PrevEn {
					cost++
				}
				if !bounded || cost <= sc.PreemptBound {
					sl := p.Sleep | 1<<p.Tid
					for t := uint8(0); t < sched.MaxThreads; t++ {
						if alts&(1<<t) == 0 {
							continue
						}
						if runTids == nil {
							runTids = make([]uint8, len(res.Points))
							for j := range res.Points {
								runTids[j] = res.Points[j].Tid
							}
						}
						stack = append(stack, item{runTids, int32(i), t, sl, int32(cost)})
						sl |= 1 << t
					}
				}
			}
			if p.Preempt {
				cnt++
			}
		}
		if visited != nil {
			st.States = visited.Len()
		} else {
			st.States = st.Transitions
		}
		if st.States > maxStates {
			st.Exhaustive = false
			st.CapHit = fmt.Sprintf("state cap %d", maxStates)
			break
		}
		if !opts.Deadline.IsZero() && st.Executions%64 == 0 && time.Now().After(opts.Deadline) {
			st.Exhaustive = false
			st.CapHit = "deadline"
			break
		}
	}
	if visited != nil {
		st.States = visited.Len()
	}
	if bounded {
		st.BoundDone = sc.PreemptBound
	}
	st.WallMs = time.Since(t0).Milliseconds()
	return st
}

func firstLine(s string) string {
	for i := 0; i < len(s); i++ {
		if s[i] == '\n' {
			return s[:i]
		}
	}
	return s
}

func sortedKeys(m map[string]int) []string {
	k := make([]string, 0, len(m))
	for s := range m {
		k = append(k, s)
	}
	sort.Strings(k)
	return k
}
