package main

import (
	"fmt"
	"sort"
	"strings"

	"github.com/fufuok/cache/internal/vshim/sched"
	vtime "github.com/fufuok/cache/internal/vshim/time"
)

// ---- C06, re-entrant callbacks that themselves remove entries ----
//
// "The callback runs outside internal locks so it may call back into the cache": a finite catalogue of
// sequential scripts in which the evicted callback, on its first invocation, performs a removing call of
// its own (a nested cleanup pass that evicts entries it has just stored, Delete, GetAndDelete, a reload of
// the evicted key, Clear). Every removed entry - by the outer call or by the nested one - must be
// reported exactly once with its own key and value, nothing else may be reported, and the outer call must
// return. Whatever an implementation shares between a removing call and the callbacks it fires (scratch
// buffers, pooled slices, remembered settings) is reused by the nested call at that moment.

type nestedCase struct {
	twin   int
	outer  string // DeleteExpired, Delete, GetAndDelete
	nOuter int    // expired (DeleteExpired) entries the outer call removes
	nested string
}

func (c nestedCase) String() string {
	return fmt.Sprintf("%s: %s removing %d entr%s, callback calls %s", twinNames[c.twin], c.outer, c.nOuter, map[bool]string{true: "y", false: "ies"}[c.nOuter == 1], c.nested)
}

var nestedActions = []string{"nothing", "DeleteExpired after storing 3 entries that expire", "Delete of another key", "GetAndDelete of another key", "Set of the evicted key", "Clear", "DeleteExpired with nothing to evict",
	"SetEvictedCallback(nil)", "SetEvictedCallback(another callback)"}

func runNestedCase(nc nestedCase) (problem string) {
	vtime.VEnable(epochNs)
	installCacheLayout(nil)
	var fired, fired2 []string
	var cc CacheLike
	first := true
	reloaded := -1
	cb := func(k, v int) {
		fired = append(fired, fmt.Sprintf("k%d=%d", k, v))
		if !first || cc == nil {
			return
		}
		first = false
		switch nc.nested {
		case nestedActions[1]:
			for j := 0; j < 3; j++ {
				cc.Set(10+j, 110+j, 1)
			}
			vtime.VAdvance(2)
			cc.DeleteExpired()
		case nestedActions[2]:
			cc.SetForever(10, 110)
			cc.Delete(10)
		case nestedActions[3]:
			cc.SetForever(10, 110)
			cc.GetAndDelete(10)
		case nestedActions[4]:
			cc.Set(k, v+100, durNoExp)
			reloaded = k
		case nestedActions[5]:
			cc.SetForever(10, 110)
			cc.Clear()
		case nestedActions[6]:
			cc.DeleteExpired()
		case nestedActions[7]:
			cc.SetEvictedCallback(nil)
		case nestedActions[8]:
			cc.SetEvictedCallback(func(k, v int) { fired2 = append(fired2, fmt.Sprintf("k%d=%d", k, v)) })
		}
	}
	c := newCache(CacheCfg{Twin: nc.twin, HasIvl: true, Ivl: 0, Callback: cb})
	cc = c
	defer func() { cc = nil }()
	var want []string
	for k := 0; k < nc.nOuter; k++ {
		if nc.outer == "DeleteExpired" {
			c.Set(k, k+1, 1)
		} else {
			c.SetForever(k, k+1)
		}
	}
	c.SetForever(5, 55) // a bystander that nobody removes
	vtime.VAdvance(2)
	r := sched.Run([]sched.Body{func() {
		switch nc.outer {
		case "DeleteExpired":
			c.DeleteExpired()
		case "Delete":
			for k := 0; k < nc.nOuter; k++ {
				c.Delete(k)
			}
		case "GetAndDelete":
			for k := 0; k < nc.nOuter; k++ {
				c.GetAndDelete(k)
			}
		}
	}}, sched.Config{Horizon: 2_000_000})
	if r.Outcome != sched.OComplete {
		return fmt.Sprintf("the call does not return (%s %s)", r.Outcome, r.Detail)
	}
	for k := 0; k < nc.nOuter; k++ {
		want = append(want, fmt.Sprintf("k%d=%d", k, k+1))
	}
	wantCount := 1
	switch nc.nested {
	case nestedActions[1]:
		want = append(want, "k10=110", "k11=111", "k12=112")
	case nestedActions[2], nestedActions[3]:
		want = append(want, "k10=110")
	case nestedActions[4]:
		wantCount = 2 // the reloaded key stays
	case nestedActions[5]:
		wantCount = 0 // Clear drops the bystander too (and, like every Clear, reports nothing)
		if nc.outer != "DeleteExpired" && nc.nOuter > 1 {
			// later Deletes of the outer loop find their keys cleared already: not removed by them, not reported
			want = want[:1]
		}
	}
	sort.Strings(want)
	got := append(append([]string{}, fired...), fired2...)
	sort.Strings(got)
	if nc.nested == nestedActions[7] || nc.nested == nestedActions[8] {
		// the callback is swapped (or removed) in the middle of the outer call: the entries the call goes on to
		// remove are told to a callback that was in force during the call - the old one, the new one, or (after
		// nil) nobody - but never twice and never with a key/value that was not removed
		seenOnce := map[string]bool{}
		wantSet := map[string]bool{}
		for _, w := range want {
			wantSet[w] = true
		}
		for _, g := range got {
			if seenOnce[g] || !wantSet[g] {
				return fmt.Sprintf("callbacks delivered [%s] (old: %v, new: %v), the entries removed were [%s]", strings.Join(got, " "), fired, fired2, strings.Join(want, " "))
			}
			seenOnce[g] = true
		}
		if nc.nested == nestedActions[8] && len(got) != len(want) {
			return fmt.Sprintf("callbacks delivered [%s] (old: %v, new: %v), the entries removed were [%s]", strings.Join(got, " "), fired, fired2, strings.Join(want, " "))
		}
	} else if strings.Join(got, " ") != strings.Join(want, " ") {
		return fmt.Sprintf("callbacks delivered [%s] (in this order: %v), the entries removed were [%s]", strings.Join(got, " "), fired, strings.Join(want, " "))
	}
	if n := c.Count(); n != wantCount {
		return fmt.Sprintf("Count=%d afterwards, want %d", n, wantCount)
	}
	if nc.nested == nestedActions[4] {
		if v, ok := c.Get(reloaded); !ok || v != reloaded+101 {
			return fmt.Sprintf("the value stored by the callback for the evicted key is not there: Get=(%d,%v)", v, ok)
		}
	}
	return ""
}

func c06Nested() ([]Finding, int) {
	var out []Finding
	n := 0
	seen := map[string]bool{}
	for twin := 0; twin < 3; twin++ {
		for _, outer := range []string{"DeleteExpired", "Delete", "GetAndDelete"} {
			for _, nOuter := range []int{1, 3} {
				for _, nested := range nestedActions {
					nc := nestedCase{twin, outer, nOuter, nested}
					n++
					if p := runNestedCase(nc); p != "" {
						sig := fmt.Sprintf("re-entrant callback: %s whose callback calls %s: %s", outer, nested, strings.SplitN(p, " (", 2)[0])
						if i := strings.IndexByte(sig, '['); i > 0 {
							sig = sig[:i] + "..."
						}
						if !seen[sig] {
							seen[sig] = true
							out = append(out, Finding{Property: "C06", Signature: sig, Detail: nc.String() + ": " + p, Replay: map[string]interface{}{"engine": "C06nested"}})
						}
					}
				}
			}
		}
	}
	return out, n
}
