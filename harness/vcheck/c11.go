package main

import (
	"fmt"
	"sort"
	"strings"

	cache "github.com/fufuok/cache"
	"github.com/fufuok/cache/internal/vshim/sched"
	vtime "github.com/fufuok/cache/internal/vshim/time"
	"github.com/fufuok/cache/internal/xsync"
)

// ---- C11: contents never depend on capacity, resize history, hash seed or bucket layout ----

// (a) occupancy patterns: every reachable arrangement of a bucket chain, exhaustively.

type occInst struct {
	m      MapLike
	ref    MState
	events []MIn
	log    []string
	nfill  int // fillers in the target chain (not in the alphabet)
	nother int // fillers elsewhere
}

func (o *occInst) Apply(ev int, check bool) (string, string) {
	in := o.events[ev]
	got := execMapOp(o.m, in, nil, 0, nil).(MOut)
	exp, ns := mapApply(o.ref, in)
	pre := "absent"
	if o.ref[in.K] != 0 {
		pre = "present"
	}
	o.ref = ns
	if !check {
		return "", ""
	}
	o.log = append(o.log, fmt.Sprintf("%v -> %v   chain %v", in, got, o.m.ChainKeys(0)))
	if got != exp {
		path := chainShape(o.m)
		opn := in.Op.String()
		if in.Op == MCompute {
			opn += "(" + fnNames[in.Fn] + ")"
		}
		return fmt.Sprintf("%s on %s key: result depends on the bucket layout (got %s, a builtin map gives %s)", opn, pre, outShape(got, in), outShape(exp, in)),
			fmt.Sprintf("call %v returned %v, reference says %v; chain after the call: %v (%s)", in, got, exp, o.m.ChainKeys(0), path)
	}
	// contents: exactly the reference
	n := 0
	for k := 0; k < NK; k++ {
		v, ok := o.m.Load(k)
		if ok != (o.ref[k] != 0) || v != int(o.ref[k]) {
			return fmt.Sprintf("after %s: key lost, duplicated or resurrected", in.Op), fmt.Sprintf("after %v Load(k%d)=(%d,%v), reference %d; chain %v", in, k, v, ok, o.ref[k], o.m.ChainKeys(0))
		}
		if ok {
			n++
		}
	}
	seen := map[int]int{}
	dup := false
	o.m.Range(func(k, v int) bool {
		if _, d := seen[k]; d {
			dup = true
		}
		seen[k] = v
		return true
	})
	want := n + o.nfill + o.nother
	if dup || len(seen) != want || o.m.Size() != want {
		return fmt.Sprintf("after %s: Range/Size disagree with the reference map", in.Op), fmt.Sprintf("after %v: Range saw %d keys (dup=%v), Size=%d, reference %d; chain %v", in, len(seen), dup, o.m.Size(), want, o.m.ChainKeys(0))
	}
	for j := 0; j < o.nfill; j++ {
		if v, ok := seen[fillTarget+j]; !ok || v != 1000+j {
			return fmt.Sprintf("after %s: a bystander key of the same chain was lost or changed", in.Op), fmt.Sprintf("after %v: filler k%d -> (%d,%v)", in, fillTarget+j, v, ok)
		}
	}
	return "", ""
}

func outShape(o MOut, in MIn) string {
	v := "zero"
	if o.V != 0 {
		v = "non-zero"
	}
	return fmt.Sprintf("(%s,%v)", v, o.Ok)
}

func chainShape(m MapLike) string {
	return fmt.Sprintf("%d root buckets, target chain %v", m.RootBuckets(), m.Chain(0))
}

func (o *occInst) Key() string {
	// the real arrangement of the chain (which key sits in which slot), the table length, and the contents
	if ck := o.m.ChainKeys(0); ck != nil {
		return fmt.Sprintf("%v|%d|%v", ck, o.m.RootBuckets(), o.ref)
	}
	// no view of the chains for this tree (structural stub): the order in which Range meets the keys stands
	// in for the arrangement (bucket order and slot order, holes excepted)
	var order []int
	o.m.Range(func(k, v int) bool { order = append(order, k); return true })
	return fmt.Sprintf("order%v|%d|%v", order, o.m.RootBuckets(), o.ref)
}
func (o *occInst) Log() []string { return append([]string{}, o.log...) }
func (o *occInst) Close()        {}

func occSpec(name string, c ContainerKind, nkeys, nfill int, aboveThreshold bool, level int) *SeqSpec {
	return occSpecRel(name, c, nkeys, nfill, aboveThreshold, level, RelSD)
}

func occSpecRel(name string, c ContainerKind, nkeys, nfill int, aboveThreshold bool, level int, rel KeyRel) *SeqSpec {
	var events []MIn
	for k := 0; k < nkeys; k++ {
		v := k + 1
		events = append(events, MIn{Op: MLoad, K: k}, MIn{Op: MDelete, K: k}, MIn{Op: MStore, K: k, V: v},
			MIn{Op: MLoadOrStore, K: k, V: v}, MIn{Op: MLoadAndStore, K: k, V: v + 10}, MIn{Op: MLoadAndDelete, K: k},
			MIn{Op: MLoadOrCompute, K: k, V: v}, MIn{Op: MCompute, K: k, V: v + 20, Fn: FnSet}, MIn{Op: MCompute, K: k, V: 77, Fn: FnDel},
			MIn{Op: MCompute, K: k, V: v, Fn: FnDelIfPresent}, MIn{Op: MCompute, K: k, V: v, Fn: FnSetIfAbsent})
	}
	names := make([]string, len(events))
	for i, e := range events {
		names[i] = e.String()
	}
	return &SeqSpec{Name: name, Events: names, New: func() SeqInst {
		emptyKeyZero = false
		lay := layoutFor(rel)
		m := newContainer(c, lay)
		for j := 0; j < nfill; j++ {
			m.Store(fillTarget+j, 1000+j)
		}
		nother := 0
		if aboveThreshold {
			thr := growPolicy(c)
			for j := 0; m.Size() <= thr; j++ {
				m.Store(fillSpread+j, 2000+j)
				nother++
			}
		}
		return &occInst{m: m, events: events, nfill: nfill, nother: nother}
	}}
}

// (b) resize histories: bulk inserts and deletes crossing every grow/shrink threshold, all size hints.

type bulkInst struct {
	m      MapLike
	ref    map[int]int
	events []bulkEv
	log    []string
	n      int
	// termOnly: the only question is whether every call returns (C13); contents are C11's business
	termOnly bool
}

type bulkEv struct {
	Kind string // growTo, shrinkTo, clear, delEvens, probe
	N    int
}

func (e bulkEv) String() string {
	if e.Kind == "clear" || e.Kind == "probe" || e.Kind == "delEvens" {
		return e.Kind
	}
	return fmt.Sprintf("%s(%d)", e.Kind, e.N)
}

func (b *bulkInst) Apply(ev int, check bool) (string, string) {
	if b.n >= 100000 {
		// very large histories: a call that spins forever must end as a verdict (applySafe turns the panic into one)
		sched.SetBudget(400_000_000)
		defer sched.SetBudget(0)
	}
	e := b.events[ev]
	val := func(k int) int { return 10*k + 7 }
	switch e.Kind {
	case "growTo":
		for k := 0; k < e.N; k++ {
			if _, ok := b.ref[k]; !ok {
				b.m.Store(k, val(k))
				b.ref[k] = val(k)
			}
		}
	case "shrinkTo":
		for k := e.N; k < b.n; k++ {
			if _, ok := b.ref[k]; ok {
				b.m.Delete(k)
				delete(b.ref, k)
			}
		}
	case "delEvens":
		for k := 0; k < b.n; k += 2 {
			if _, ok := b.ref[k]; ok {
				b.m.Delete(k)
				delete(b.ref, k)
			}
		}
	case "clear":
		b.m.Clear()
		b.ref = map[int]int{}
	case "probe":
		// single-key calls on present and absent keys around the cut points; each result is compared
		// with the builtin map and the state is restored
		for _, k := range []int{0, 1, 72, 73, 96, 97, b.n - 1} {
			if k >= b.n {
				continue
			}
			cur, has := b.ref[k]
			for _, in := range []MIn{{Op: MLoad, K: k}, {Op: MLoadOrStore, K: k, V: 5}, {Op: MLoadAndStore, K: k, V: 6}, {Op: MCompute, K: k, V: 8, Fn: FnDel},
				{Op: MLoadOrCompute, K: k, V: 9}, {Op: MLoadAndDelete, K: k}, {Op: MCompute, K: k, V: 3, Fn: FnDel}} {
				var st MState
				c0, h0 := b.ref[k]
				if h0 {
					st[0] = int32(c0)
				}
				in0 := in
				in0.K = 0
				exp, ns := mapApply(st, in0)
				got := execMapOp(b.m, in, nil, 0, nil).(MOut)
				if ns[0] == 0 {
					delete(b.ref, k)
				} else {
					b.ref[k] = int(ns[0])
				}
				if check && got != exp && !b.termOnly {
					opn := in.Op.String()
					if in.Op == MCompute {
						opn += "(" + fnNames[in.Fn] + ")"
					}
					return fmt.Sprintf("%s: result depends on table size / resize history (got %s, a builtin map gives %s)", opn, outShape(got, in), outShape(exp, in)),
						fmt.Sprintf("probe %v returned %v, reference %v (%d entries, %d root buckets)", in, got, exp, len(b.ref), b.m.RootBuckets())
				}
			}
			// restore
			if has {
				b.m.Store(k, cur)
				b.ref[k] = cur
			} else {
				b.m.Delete(k)
				delete(b.ref, k)
			}
		}
	}
	if !check || b.termOnly {
		return "", ""
	}
	st := b.m.Stats()
	b.log = append(b.log, fmt.Sprintf("%v -> %d entries, %d root buckets, growths=%d shrinks=%d", e, len(b.ref), st.RootBuckets, st.TotalGrowths, st.TotalShrinks))
	// full comparison with the builtin map
	if b.m.Size() != len(b.ref) {
		return fmt.Sprintf("%s: Size differs from the builtin map", e.Kind), fmt.Sprintf("after %v Size=%d, reference %d", e, b.m.Size(), len(b.ref))
	}
	seen := map[int]int{}
	dup := -1
	b.m.Range(func(k, v int) bool {
		if _, d := seen[k]; d {
			dup = k
		}
		seen[k] = v
		return true
	})
	if dup >= 0 {
		return fmt.Sprintf("%s: an entry is duplicated", e.Kind), fmt.Sprintf("after %v key %d visited twice", e, dup)
	}
	if len(seen) != len(b.ref) {
		return fmt.Sprintf("%s: entries lost or resurrected", e.Kind), fmt.Sprintf("after %v Range saw %d entries, reference %d", e, len(seen), len(b.ref))
	}
	for k, v := range b.ref {
		if sv, ok := seen[k]; !ok || sv != v {
			return fmt.Sprintf("%s: entries lost or changed", e.Kind), fmt.Sprintf("after %v key %d: Range (%d,%v) reference %d", e, k, sv, ok, v)
		}
	}
	for k := 0; k < b.n; k++ {
		v, ok := b.m.Load(k)
		rv, rok := b.ref[k]
		if ok != rok || v != rv {
			return fmt.Sprintf("%s: Load differs from the builtin map", e.Kind), fmt.Sprintf("after %v Load(%d)=(%d,%v) reference (%d,%v)", e, k, v, ok, rv, rok)
		}
	}
	return "", ""
}

func (b *bulkInst) Key() string {
	// contents class + physical table length (the resize history that matters for the future)
	ks := make([]int, 0, 8)
	for k := range b.ref {
		if len(ks) < 4 {
			ks = append(ks, k)
		}
	}
	sort.Ints(ks)
	odd := 0
	for k := range b.ref {
		if k%2 == 1 {
			odd++
		}
	}
	return fmt.Sprintf("n=%d odd=%d roots=%d", len(b.ref), odd, b.m.RootBuckets())
}
func (b *bulkInst) Log() []string { return append([]string{}, b.log...) }
func (b *bulkInst) Close()        {}

// cacheAsMap lets the bulk histories run against Cache / CacheOf (forever entries).
type cacheAsMap struct{ c CacheLike }

func (a cacheAsMap) Load(k int) (int, bool) { return a.c.Get(k) }
func (a cacheAsMap) Store(k, v int)         { a.c.SetForever(k, v) }
func (a cacheAsMap) LoadOrStore(k, v int) (int, bool) {
	return a.c.GetOrSet(k, v, durNoExp)
}
func (a cacheAsMap) LoadAndStore(k, v int) (int, bool) {
	return a.c.GetAndSet(k, v, durNoExp)
}
func (a cacheAsMap) LoadOrCompute(k int, fn func() int) (int, bool) {
	return a.c.GetOrCompute(k, fn, durNoExp)
}
func (a cacheAsMap) Compute(k int, fn func(int, bool) (int, bool)) (int, bool) {
	return a.c.Compute(k, fn, durNoExp)
}
func (a cacheAsMap) LoadAndDelete(k int) (int, bool) { return a.c.GetAndDelete(k) }
func (a cacheAsMap) Delete(k int)                    { a.c.Delete(k) }
func (a cacheAsMap) Range(fn func(k, v int) bool)    { a.c.Range(fn) }
func (a cacheAsMap) Clear()                          { a.c.Clear() }
func (a cacheAsMap) Size() int                       { return a.c.Count() }
func (a cacheAsMap) Stats() xsync.MapStats           { return a.c.Stats() }
func (a cacheAsMap) Chain(int) []string              { return nil }
func (a cacheAsMap) ChainKeys(int) [][]string        { return nil }
func (a cacheAsMap) RootBuckets() int                { return a.c.Stats().RootBuckets }

// collide: 0 = seeded well-spread hash, 1 = every key in one bucket chain, 4 = keys spread over 4 buckets only
func bulkSpec(name string, kind int, hint int, seed uint64, n int, depth int, collide int, extra ...func(*xsync.MapConfig)) *SeqSpec {
	cuts := []int{1, 72, 73, 74, 96, 97, 121, 145, 289, 577, n / 2, n}
	shrinks := []int{0, 1, 2, 3, 5, 37, 73, 96, 145, n / 2}
	if n >= 20000 {
		// large tables (more counter stripes, 16384+ buckets): few, big steps
		cuts, shrinks = []int{n}, []int{5, n / 2}
	}
	if n >= 100000 {
		cuts, shrinks = []int{n}, []int{5}
	}
	var events []bulkEv
	events = append(events, bulkEv{Kind: "probe"})
	for _, c := range cuts {
		if c <= n {
			events = append(events, bulkEv{Kind: "growTo", N: c})
		}
	}
	for _, c := range shrinks {
		if c <= n {
			events = append(events, bulkEv{Kind: "shrinkTo", N: c})
		}
	}
	events = append(events, bulkEv{Kind: "delEvens"}, bulkEv{Kind: "clear"})
	names := make([]string, len(events))
	for i, e := range events {
		names[i] = e.String()
	}
	return &SeqSpec{Name: name, Events: names, MaxDepth: depth, New: func() SeqInst {
		installDetHash(seed)
		emptyKeyZero = false
		if collide < 0 {
			// the real hash functions with random table seeds; key 0 is the empty string
			xsync.VerifSeed, xsync.VerifHashString, xsync.VerifHasher = nil, nil, nil
			emptyKeyZero = true
		}
		if collide > 0 {
			cf := func(k int) uint64 { return uint64(k%collide)<<7 | uint64(k%collide)<<50 | uint64(k/collide)%120 }
			xsync.VerifHashString = func(s string, _ uint64) uint64 { return cf(keyIndex(s)) }
			xsync.VerifHasher = func(zero interface{}) interface{} {
				if _, ok := zero.(int); ok {
					return func(k int, _ uint64) uint64 { return cf(k) }
				}
				return nil
			}
		}
		var m MapLike
		var opts []func(*xsync.MapConfig)
		if hint != 0 {
			opts = append(opts, xsync.WithPresize(hint))
		}
		opts = append(opts, extra...)
		switch kind {
		case 0:
			// through the exported constructors of package cache where they can express the configuration
			switch {
			case len(extra) > 0:
				m = mapAdapter{m: xsync.NewMap(opts...)}
			case hint != 0:
				m = mapAdapter{m: cache.NewMapPresized(hint).(*xsync.Map)}
			default:
				m = mapAdapter{m: cache.NewMap().(*xsync.Map)}
			}
		case 1:
			id := func(x int) int { return x }
			var xm *xsync.MapOf[int, int]
			switch {
			case len(extra) > 0:
				xm = xsync.NewMapOf[int, int](opts...)
			case hint != 0:
				xm = cache.NewMapOfPresized[int, int](hint).(*xsync.MapOf[int, int])
			default:
				xm = cache.NewMapOf[int, int]().(*xsync.MapOf[int, int])
			}
			m = mapOfAdapter[int, int]{m: xm, toK: id, fromK: id, toV: id, fromV: id}
		case 2, 3:
			vtime.VEnable(epochNs)
			vtime.VCaptureTickers(true)
			cfg := CacheCfg{Twin: (kind - 2) * 2, HasIvl: true, Ivl: 0}
			if hint != 0 {
				cfg.HasMinCap, cfg.MinCap = true, hint
			}
			m = cacheAsMap{newCache(cfg)}
		}
		return &bulkInst{m: m, ref: map[int]int{}, events: events, n: n}
	}}
}

var bulkKinds = []string{"Map", "MapOf[int,int]", "Cache", "CacheOf[int,int]"}

func genC11(tier string) []*Scenario {
	lvl := lvlOf(tier)
	var out []*Scenario
	// (a)
	for _, c := range []ContainerKind{CMap, CMapOfInt, CMapOfStr} {
		slots := c.slots()
		nk := 3
		if lvl >= 1 {
			nk = 4
		}
		if c == CMapOfStr && lvl == 0 {
			continue
		}
		for nfill := 0; nfill <= 2*slots; nfill++ {
			for _, above := range []bool{false, true} {
				name := fmt.Sprintf("C11/occupancy/%s/fillers-in-chain=%d/aboveGrowThreshold=%v", c, nfill, above)
				out = append(out, &Scenario{Name: name, Prop: "C11", Seq: occSpec(name, c, nk, nfill, above, lvl), ExpectOutcomes: 2})
			}
		}
	}
	// (a') the same with a key whose tag is all zero, and with zero-tag keys alone in their buckets across resizes
	for _, c := range []ContainerKind{CMap, CMapOfInt} {
		for _, nfill := range []int{0, c.slots() - 1, c.slots()} {
			for _, above := range []bool{false, true} {
				name := fmt.Sprintf("C11/occupancy/%s/zero-tag-key/fillers-in-chain=%d/aboveGrowThreshold=%v", c, nfill, above)
				out = append(out, &Scenario{Name: name, Prop: "C11", Seq: occSpecRel(name, c, 3, nfill, above, lvl, RelZeroSD), ExpectOutcomes: 2})
			}
		}
		for _, nfill := range []int{0, c.slots()} {
			name := fmt.Sprintf("C11/occupancy/%s/max-tag-keys/fillers-in-chain=%d", c, nfill)
			out = append(out, &Scenario{Name: name, Prop: "C11", Seq: occSpecRel(name, c, 3, nfill, nfill > 0, lvl, RelMaxSD), ExpectOutcomes: 2})
		}
		name := fmt.Sprintf("C11/occupancy/%s/zero-tag-keys-alone-in-their-buckets/aboveGrowThreshold", c)
		out = append(out, &Scenario{Name: name, Prop: "C11", Seq: occSpecRel(name, c, 3, 0, true, lvl, RelZeroDD), ExpectOutcomes: 2})
	}
	// (b)
	n, depth := 1200, 3
	seeds := []uint64{1, 2}
	hints := []int{-5, 0, 1, 97, 1000, 100000}
	if lvl >= 1 {
		n, depth = 6000, 4
		seeds = []uint64{1, 2, 3}
		hints = []int{-5, 0, 1, 96, 97, 1000, 100000}
	}
	for kind := range bulkKinds {
		for _, hint := range hints {
			for _, seed := range seeds {
				if lvl == 0 && kind >= 2 && seed > 1 {
					continue
				}
				name := fmt.Sprintf("C11/resize-histories/%s/hint=%d/seed=%d", bulkKinds[kind], hint, seed)
				out = append(out, &Scenario{Name: name, Prop: "C11", Seq: bulkSpec(name, kind, hint, seed, n, depth, 0), ExpectOutcomes: 2})
			}
		}
		if kind < 2 {
			// construction options: a grow-only map (never shrinks, Clear still empties it), also presized
			for _, hint := range []int{0, 1000} {
				name := fmt.Sprintf("C11/resize-histories/%s/grow-only/hint=%d", bulkKinds[kind], hint)
				out = append(out, &Scenario{Name: name, Prop: "C11", Seq: bulkSpec(name, kind, hint, 1, n, depth, 0, xsync.WithGrowOnly()), ExpectOutcomes: 2})
			}
			// a table that has doubled 12 times (131072 root buckets): index bits, lengths and counters beyond 16 bits
			nameH := fmt.Sprintf("C11/resize-histories/%s/huge-table", bulkKinds[kind])
			out = append(out, &Scenario{Name: nameH, Prop: "C11", Seq: bulkSpec(nameH, kind, 0, 1, 300000, 1+lvl, 0), ExpectOutcomes: 2})
			// a table large enough to have more counter stripes than the minimum and 16384+ root buckets
			name := fmt.Sprintf("C11/resize-histories/%s/large-table", bulkKinds[kind])
			out = append(out, &Scenario{Name: name, Prop: "C11", Seq: bulkSpec(name, kind, 0, 1, 40000, 2+lvl, 0), ExpectOutcomes: 2})
		}
		// the real hash functions (runtime memhash / typehash, random seeds): the oracle is layout independent
		name0 := fmt.Sprintf("C11/resize-histories/%s/real-hash-functions", bulkKinds[kind])
		out = append(out, &Scenario{Name: name0, Prop: "C11", Seq: bulkSpec(name0, kind, 0, 1, n, depth, -1), ExpectOutcomes: 2})
		// fully / heavily colliding hash functions: everything lives in 1 or 4 bucket chains, resizes copy long chains
		for _, collide := range []int{1, 4} {
			name := fmt.Sprintf("C11/resize-histories/%s/colliding-into-%d-chains", bulkKinds[kind], collide)
			out = append(out, &Scenario{Name: name, Prop: "C11", Seq: bulkSpec(name, kind, 0, 1, 700, depth, collide), ExpectOutcomes: 2})
		}
	}
	return out
}

func init() {
	scenarioGens["C11"] = genC11
	checks["C11"] = func(rc *runCtx) int {
		return runE1Check(rc, []string{
			"(a) all alphabet keys are forced into one root bucket (table-driven hash for Map, layout hasher for MapOf); the state key contains the real arrangement of the chain (which key in which slot), so every reachable occupancy pattern is a distinct state; searched to the fixpoint for every number of bystander keys in the chain (0..2*slots) below and above the grow threshold",
			"(b) bulk histories: growTo/shrinkTo at cut points around every grow/shrink threshold of the 32..2048-bucket tables, delete-evens, Clear, single-key probes; size hints -5,0,1,96,97,1000,100000; deterministic hash seeds (the process hash key of the Go runtime is not enumerable); depth-bounded",
			"oracle: the builtin map fed the same calls (every return value, Size, Range multiset, Load of every key)",
			strings.TrimSpace("layouts in (b) are whatever the seeded hash yields: deterministic enumeration of histories, not of layouts"),
		}, nil)
	}
}
