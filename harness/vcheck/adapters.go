package main

import (
	"fmt"
	"strconv"
	"sync"
	"sync/atomic"

	"github.com/fufuok/cache/internal/xsync"
)

// MapLike is the common surface of Map and MapOf instantiations, over small
// integer key indices and integer value ids (0 = the zero value / "nothing").
type MapLike interface {
	Load(k int) (int, bool)
	Store(k, v int)
	LoadOrStore(k, v int) (int, bool)
	LoadAndStore(k, v int) (int, bool)
	LoadOrCompute(k int, fn func() int) (int, bool)
	Compute(k int, fn func(old int, loaded bool) (int, bool)) (int, bool)
	LoadAndDelete(k int) (int, bool)
	Delete(k int)
	Range(fn func(k, v int) bool)
	Clear()
	Size() int
	Stats() xsync.MapStats
	Chain(bucket int) []string
	ChainKeys(bucket int) [][]string
	RootBuckets() int
}

// ---- key layout: which bucket and which in-bucket tag every key index gets ----

// Layout assigns to every key index a hash made of bucket bits and a tag.
type Layout struct {
	Bucket func(k int) uint64 // low bits select the root bucket (table length is a power of two)
	Tag    func(k int) uint64 // Map: 20-bit top hash; MapOf: 7-bit h2
}

func (l Layout) hashMap(k int) uint64   { return (l.Tag(k)&0xfffff)<<44 | (l.Bucket(k) & 0xffffffff) }
func (l Layout) hashMapOf(k int) uint64 { return composeMapOf(l.Bucket(k)&0xffffffff, l.Tag(k)&0x7f) }

// composeMapOf builds a hash whose bucket-selecting part (h1, low 32 bits) and in-bucket tag (h2) are the
// given ones, whichever bits of the hash the code under test takes them from (measured once through the
// code's own h1/h2: each must be a selection of hash bits).
var mapOfBits struct {
	once sync.Once
	h1   [32]uint64 // hash bit feeding bit j of h1
	h2   [7]uint64  // hash bit feeding bit j of h2
}

func composeMapOf(bucket, tag uint64) uint64 {
	mapOfBits.once.Do(func() {
		for i := 0; i < 64; i++ {
			x := uint64(1) << uint(i)
			a, b := xsync.VerifH1(x), uint64(xsync.VerifH2(x))
			for j := 0; j < 32; j++ {
				if a == 1<<uint(j) && mapOfBits.h1[j] == 0 {
					mapOfBits.h1[j] = x
				}
			}
			for j := 0; j < 7; j++ {
				if b == 1<<uint(j) && mapOfBits.h2[j] == 0 {
					mapOfBits.h2[j] = x
				}
			}
		}
		for j := range mapOfBits.h1 {
			if mapOfBits.h1[j] == 0 {
				panic("the bucket-selecting bits of a MapOf hash cannot be controlled (h1 is not a selection of hash bits)")
			}
		}
		for j := range mapOfBits.h2 {
			if mapOfBits.h2[j] == 0 {
				panic("the tag bits of a MapOf hash cannot be controlled (h2 is not a selection of hash bits)")
			}
		}
	})
	var h uint64
	for j := 0; bucket != 0; j, bucket = j+1, bucket>>1 {
		if bucket&1 != 0 {
			h |= mapOfBits.h1[j]
		}
	}
	for j := 0; tag != 0; j, tag = j+1, tag>>1 {
		if tag&1 != 0 {
			h |= mapOfBits.h2[j]
		}
	}
	return h
}

// Every table generation of a container gets its own seed (1, 2, 3, ...), and the in-bucket tag of a key
// depends on it (the bucket does not: the designed bucket relations hold in every generation; the first
// generation has exactly the designed tags). A hash computed for one table and used on another one puts
// the entry where lookups with the right hash do not find it.
func seedSequence() func() uint64 {
	// atomic: a tree may draw seeds from two goroutines at once (tables allocated before the resize is claimed)
	var n atomic.Uint64
	return func() uint64 { return n.Add(1) }
}

func (l Layout) hashMapSeeded(k int, seed uint64) uint64 {
	return l.hashMap(k) ^ (((seed-1)*0x9E37)&0xfffff)<<44
}

func (l Layout) hashMapOfSeeded(k int, seed uint64) uint64 {
	return composeMapOf(l.Bucket(k)&0xffffffff, (l.Tag(k)^((seed-1)*37))&0x7f)
}

// emptyKeyZero makes key index 0 the empty string (used by the jobs that run the real hash functions).
var emptyKeyZero bool

func keyName(k int) string {
	if k == 0 && emptyKeyZero {
		return ""
	}
	return "k" + strconv.Itoa(k)
}

func keyIndex(s string) int {
	if s == "" && emptyKeyZero {
		return 0
	}
	if len(s) < 2 || s[0] != 'k' {
		panic("unexpected key " + strconv.Quote(s))
	}
	n, err := strconv.Atoi(s[1:])
	if err != nil {
		panic(err)
	}
	return n
}

// ---- Map (string keys, interface{} values) ----

type mapAdapter struct {
	m     *xsync.Map
	box   func(int) interface{}
	unbox func(interface{}) int
}

func (a mapAdapter) bx(v int) interface{} {
	if a.box != nil {
		return a.box(v)
	}
	return boxV(v)
}

func (a mapAdapter) ub(x interface{}) int {
	if a.unbox != nil {
		return a.unbox(x)
	}
	return unboxV(x)
}

// payload is what the race check stores: memory initialised with plain writes just before the
// call and read with plain reads after it was obtained from the container ("publishes values safely").
type payload struct{ a, b int }

func newPayload(v int) *payload {
	if v == 0 {
		return nil
	}
	p := &payload{}
	p.a = v
	p.b = 2*v + 1
	return p
}

func readPayload(p *payload) int {
	if p == nil {
		return 0
	}
	if p.b != 2*p.a+1 {
		panic("payload read half-initialised")
	}
	return p.a
}

func boxP(v int) interface{} {
	if v == 0 {
		return nil
	}
	return newPayload(v)
}

func unboxP(x interface{}) int {
	if x == nil {
		return 0
	}
	return readPayload(x.(*payload))
}

func boxV(v int) interface{} {
	if v == 0 {
		return nil
	}
	return v
}

func unboxV(x interface{}) int {
	if x == nil {
		return 0
	}
	return x.(int)
}

func (a mapAdapter) Load(k int) (int, bool) {
	v, ok := a.m.Load(keyName(k))
	return a.ub(v), ok
}
func (a mapAdapter) Store(k, v int) { a.m.Store(keyName(k), a.bx(v)) }
func (a mapAdapter) LoadOrStore(k, v int) (int, bool) {
	r, ok := a.m.LoadOrStore(keyName(k), a.bx(v))
	return a.ub(r), ok
}
func (a mapAdapter) LoadAndStore(k, v int) (int, bool) {
	r, ok := a.m.LoadAndStore(keyName(k), a.bx(v))
	return a.ub(r), ok
}
func (a mapAdapter) LoadOrCompute(k int, fn func() int) (int, bool) {
	r, ok := a.m.LoadOrCompute(keyName(k), func() interface{} { return a.bx(fn()) })
	return a.ub(r), ok
}
func (a mapAdapter) Compute(k int, fn func(int, bool) (int, bool)) (int, bool) {
	r, ok := a.m.Compute(keyName(k), func(o interface{}, l bool) (interface{}, bool) {
		nv, del := fn(a.ub(o), l)
		return a.bx(nv), del
	})
	return a.ub(r), ok
}
func (a mapAdapter) LoadAndDelete(k int) (int, bool) {
	r, ok := a.m.LoadAndDelete(keyName(k))
	return a.ub(r), ok
}
func (a mapAdapter) Delete(k int) { a.m.Delete(keyName(k)) }
func (a mapAdapter) Range(fn func(k, v int) bool) {
	a.m.Range(func(k string, v interface{}) bool { return fn(keyIndex(k), a.ub(v)) })
}
func (a mapAdapter) Clear()                { a.m.Clear() }
func (a mapAdapter) Size() int             { return a.m.Size() }
func (a mapAdapter) Stats() xsync.MapStats { return a.m.Stats() }
func (a mapAdapter) Chain(b int) []string  { return a.m.VerifChain(b) }
func (a mapAdapter) RootBuckets() int      { return a.m.VerifRootBuckets() }

func newMapAdapter(l Layout, opts ...func(*xsync.MapConfig)) MapLike {
	xsync.VerifSeed = seedSequence()
	xsync.VerifHashString = func(s string, seed uint64) uint64 { return l.hashMapSeeded(keyIndex(s), seed) }
	return mapAdapter{m: xsync.NewMap(opts...)}
}

func newMapAdapterP(l Layout, opts ...func(*xsync.MapConfig)) MapLike {
	xsync.VerifSeed = seedSequence()
	xsync.VerifHashString = func(s string, seed uint64) uint64 { return l.hashMapSeeded(keyIndex(s), seed) }
	return mapAdapter{m: xsync.NewMap(opts...), box: boxP, unbox: unboxP}
}

func newMapOfIntP(l Layout, opts ...func(*xsync.MapConfig)) MapLike {
	xsync.VerifSeed = seedSequence()
	h := func(k int, seed uint64) uint64 { return l.hashMapOfSeeded(k, seed) }
	return mapOfAdapter[int, *payload]{
		m:   xsync.NewMapOfWithHasher[int, *payload](h, opts...),
		toK: func(k int) int { return k }, fromK: func(k int) int { return k },
		toV: newPayload, fromV: readPayload,
	}
}

// ---- MapOf[K,V] ----

type mapOfAdapter[K comparable, V any] struct {
	m     *xsync.MapOf[K, V]
	toK   func(int) K
	fromK func(K) int
	toV   func(int) V
	fromV func(V) int
}

func (a mapOfAdapter[K, V]) Load(k int) (int, bool) {
	v, ok := a.m.Load(a.toK(k))
	return a.fromV(v), ok
}
func (a mapOfAdapter[K, V]) Store(k, v int) { a.m.Store(a.toK(k), a.toV(v)) }
func (a mapOfAdapter[K, V]) LoadOrStore(k, v int) (int, bool) {
	r, ok := a.m.LoadOrStore(a.toK(k), a.toV(v))
	return a.fromV(r), ok
}
func (a mapOfAdapter[K, V]) LoadAndStore(k, v int) (int, bool) {
	r, ok := a.m.LoadAndStore(a.toK(k), a.toV(v))
	return a.fromV(r), ok
}
func (a mapOfAdapter[K, V]) LoadOrCompute(k int, fn func() int) (int, bool) {
	r, ok := a.m.LoadOrCompute(a.toK(k), func() V { return a.toV(fn()) })
	return a.fromV(r), ok
}
func (a mapOfAdapter[K, V]) Compute(k int, fn func(int, bool) (int, bool)) (int, bool) {
	r, ok := a.m.Compute(a.toK(k), func(o V, l bool) (V, bool) {
		nv, del := fn(a.fromV(o), l)
		return a.toV(nv), del
	})
	return a.fromV(r), ok
}
func (a mapOfAdapter[K, V]) LoadAndDelete(k int) (int, bool) {
	r, ok := a.m.LoadAndDelete(a.toK(k))
	return a.fromV(r), ok
}
func (a mapOfAdapter[K, V]) Delete(k int) { a.m.Delete(a.toK(k)) }
func (a mapOfAdapter[K, V]) Range(fn func(k, v int) bool) {
	a.m.Range(func(k K, v V) bool { return fn(a.fromK(k), a.fromV(v)) })
}
func (a mapOfAdapter[K, V]) Clear()                { a.m.Clear() }
func (a mapOfAdapter[K, V]) Size() int             { return a.m.Size() }
func (a mapOfAdapter[K, V]) Stats() xsync.MapStats { return a.m.Stats() }
func (a mapOfAdapter[K, V]) Chain(b int) []string  { return a.m.VerifChain(b) }
func (a mapOfAdapter[K, V]) RootBuckets() int      { return a.m.VerifRootBuckets() }

type structKey struct {
	A int32
	B string
}

func newMapOfIntInt(l Layout, opts ...func(*xsync.MapConfig)) MapLike {
	xsync.VerifSeed = seedSequence()
	h := func(k int, seed uint64) uint64 { return l.hashMapOfSeeded(k, seed) }
	return mapOfAdapter[int, int]{
		m:   xsync.NewMapOfWithHasher[int, int](h, opts...),
		toK: func(k int) int { return k }, fromK: func(k int) int { return k },
		toV: func(v int) int { return v }, fromV: func(v int) int { return v },
	}
}

func newMapOfStrStr(l Layout, opts ...func(*xsync.MapConfig)) MapLike {
	xsync.VerifSeed = seedSequence()
	h := func(k string, seed uint64) uint64 { return l.hashMapOfSeeded(keyIndex(k), seed) }
	return mapOfAdapter[string, string]{
		m:   xsync.NewMapOfWithHasher[string, string](h, opts...),
		toK: keyName, fromK: keyIndex,
		toV: func(v int) string {
			if v == 0 {
				return ""
			}
			return strconv.Itoa(v)
		},
		fromV: func(s string) int {
			if s == "" {
				return 0
			}
			n, err := strconv.Atoi(s)
			if err != nil {
				panic(err)
			}
			return n
		},
	}
}

func newMapOfStructInt(l Layout, opts ...func(*xsync.MapConfig)) MapLike {
	xsync.VerifSeed = seedSequence()
	h := func(k structKey, seed uint64) uint64 { return l.hashMapOfSeeded(int(k.A), seed) }
	return mapOfAdapter[structKey, int]{
		m:   xsync.NewMapOfWithHasher[structKey, int](h, opts...),
		toK: func(k int) structKey { return structKey{int32(k), fmt.Sprint("s", k)} }, fromK: func(k structKey) int { return int(k.A) },
		toV: func(v int) int { return v }, fromV: func(v int) int { return v },
	}
}

type ContainerKind int

const (
	CMap ContainerKind = iota
	CMapOfInt
	CMapOfStr
	CMapOfStruct
	CMapP      // Map holding *payload values (race check)
	CMapOfIntP // MapOf[int,*payload]
)

var containerNames = [...]string{"Map", "MapOf[int,int]", "MapOf[string,string]", "MapOf[struct,int]", "Map(*payload)", "MapOf[int,*payload]"}

func (c ContainerKind) String() string { return containerNames[c] }

func (c ContainerKind) slots() int {
	if c == CMap || c == CMapP {
		return 3
	}
	return 5
}

func newContainer(c ContainerKind, l Layout, opts ...func(*xsync.MapConfig)) MapLike {
	switch c {
	case CMap:
		return newMapAdapter(l, opts...)
	case CMapOfInt:
		return newMapOfIntInt(l, opts...)
	case CMapOfStr:
		return newMapOfStrStr(l, opts...)
	case CMapOfStruct:
		return newMapOfStructInt(l, opts...)
	case CMapP:
		return newMapAdapterP(l, opts...)
	case CMapOfIntP:
		return newMapOfIntP(l, opts...)
	}
	panic("bad container")
}

// detHash is a deterministic string hash (FNV-1a + finalizer) used where the
// layout must be reproducible across processes (the runtime's memhash is keyed
// by a per-process random value).
func detHash(s string, seed uint64) uint64 {
	h := uint64(14695981039346656037) ^ seed
	for i := 0; i < len(s); i++ {
		h ^= uint64(s[i])
		h *= 1099511628211
	}
	h ^= h >> 33
	h *= 0xff51afd7ed558ccd
	h ^= h >> 33
	h *= 0xc4ceb9fe1a85ec53
	h ^= h >> 33
	return h
}

// installDetHash makes Map, MapOf[string,*] and MapOf[int,*] (default hasher) use detHash with
// the seed sequence base, base+1, ... (one seed per table generation).
func installDetHash(base uint64) {
	n := base
	var seedCtr atomic.Uint64
	seedCtr.Store(n)
	xsync.VerifSeed = func() uint64 { return seedCtr.Add(1) }
	xsync.VerifHashString = detHash
	xsync.VerifHasher = func(zero interface{}) interface{} {
		switch zero.(type) {
		case string:
			return func(k string, seed uint64) uint64 { return detHash(k, seed) }
		case int:
			return func(k int, seed uint64) uint64 { return detHash(strconv.Itoa(k), seed) }
		}
		return nil
	}
}

func (a mapAdapter) ChainKeys(b int) [][]string         { return a.m.VerifChainKeys(b) }
func (a mapOfAdapter[K, V]) ChainKeys(b int) [][]string { return a.m.VerifChainKeys(b) }
