package main

import (
	"fmt"
	"os"
	"strings"
	"sync"

	"github.com/fufuok/cache/internal/vshim/sched"
)

// ---- C14: every explored schedule runs under the Go race detector ----
//
// The binary is built with -race. The scheduler's hand-offs are hidden from
// the detector (RaceDisable/RaceEnable around them, all bookkeeping in
// go:norace functions without Go maps), so the detector sees exactly the
// synchronisation the code under test performs and works as a monitor on each
// explored schedule. Reports go to a log file whose growth is checked after
// every execution.

var raceLog struct {
	path string
	size int64
}

func raceLogPath() string { return fmt.Sprintf("%s.%d", os.Getenv("VERIF_RACE_LOG"), os.Getpid()) }

func racePostRun() string {
	if raceLog.path == "" {
		raceLog.path = raceLogPath()
	}
	fi, err := os.Stat(raceLog.path)
	if err != nil || fi.Size() <= raceLog.size {
		return ""
	}
	b, _ := os.ReadFile(raceLog.path)
	txt := string(b[raceLog.size:])
	raceLog.size = fi.Size()
	if !strings.Contains(txt, "DATA RACE") {
		return ""
	}
	// a report that involves no frame of the code under test or of the harness' payload accesses
	// would be a defect of the scheduler itself: infrastructure error, not a verdict
	if !strings.Contains(txt, "fufuok/cache.") && !strings.Contains(txt, "internal/xsync.") && !strings.Contains(txt, "Payload") {
		return "INFRA: race report without frames of the code under test:\n" + txt
	}
	return txt
}

func raceSignature(txt string) string {
	// first two code-under-test frames of the report
	var fr []string
	for _, ln := range strings.Split(txt, "\n") {
		ln = strings.TrimSpace(ln)
		if (strings.Contains(ln, "fufuok/cache.") || strings.Contains(ln, "internal/xsync.")) && !strings.Contains(ln, "vshim") && strings.HasSuffix(ln, ")") {
			f := ln[:strings.LastIndex(ln, "(")]
			if i := strings.LastIndex(f, "/"); i >= 0 {
				f = f[i+1:]
			}
			if len(fr) == 0 || fr[len(fr)-1] != f {
				fr = append(fr, f)
			}
			if len(fr) == 2 {
				break
			}
		}
	}
	return "data race: " + strings.Join(fr, " <-> ")
}

func genC14(tier string) []*Scenario {
	lvl := lvlOf(tier)
	var out []*Scenario
	// Map / MapOf with pointer payloads: same-key pairs, slot reuse, traversals, resizes, Clear
	for _, c := range []ContainerKind{CMapP, CMapOfIntP} {
		var ms []*MapScen
		add := func(m *MapScen) { m.C = c; ms = append(ms, m) }
		ops := append(append([]MIn{}, allOps...), opRange, opSize)
		for i, a := range ops {
			for j, b := range ops {
				if j < i {
					continue
				}
				for _, init := range [][]int{{0, 0}, {1, 0}} {
					if lvl == 0 && init[0] == 0 && (a.Op == MLoad || a.Op == MDelete || a.Op == MLoadAndDelete) && (b.Op == MLoad || b.Op == MDelete || b.Op == MLoadAndDelete) {
						continue
					}
					add(&MapScen{Rel: RelSS, NKeys: 2, Init: init, Table: TPlain, Threads: [][]MIn{{on(a, 0)}, {on(b, 0)}}})
				}
			}
		}
		for _, rel := range []KeyRel{RelSS, RelSD} {
			for _, rd := range []MIn{opLoad, opLoS, opRange} {
				add(&MapScen{Rel: rel, NKeys: 2, Init: []int{1, 0}, Table: TPlain, Threads: [][]MIn{{on(opDelete, 0), on(opStore, 1)}, {on(rd, 1)}}})
				add(&MapScen{Rel: rel, NKeys: 2, Init: []int{1, 1}, Table: TChain2, Threads: [][]MIn{{on(opDelete, 0), on(opStore, 0)}, {on(rd, 1)}}})
			}
		}
		for _, b := range []MIn{opLoad, opStore, opDelete, opRange, opClear, opSize, opLoS} {
			add(&MapScen{Rel: RelSD, NKeys: 2, Init: []int{0, 1}, Table: TFullChain, Threads: [][]MIn{{on(opStore, 0)}, {on(b, 1)}}})
			add(&MapScen{Rel: RelSD, NKeys: 2, Init: []int{0, 0}, Table: TFullChain, Threads: [][]MIn{{on(opLoC, 0)}, {on(b, 0)}}})
			add(&MapScen{Rel: RelSD, NKeys: 2, Init: []int{0, 1}, Table: TGrowArmed, Threads: [][]MIn{{on(opStore, 0)}, {on(b, 1)}}, ExpectGrow: true})
			add(&MapScen{Rel: RelDD, NKeys: 2, Init: []int{1, 1}, Table: TShrinkArmed, Threads: [][]MIn{{on(opDelete, 0)}, {on(b, 1)}}, ExpectShrink: true})
			if lvl >= 1 {
				add(&MapScen{Rel: RelLate, NKeys: 3, Init: []int{0, 1, 1}, Table: TGrowArmed, Bound: 2, Threads: [][]MIn{{on(opStore, 0)}, {on(b, 1)}, {on(opLoad, 2)}}, ExpectGrow: true})
			}
		}
		for _, second := range []MIn{opClear, on(opStore, 1)} {
			for _, w := range []MIn{on(opStore, 1), on(opDelete, 1), opClear} {
				add(&MapScen{Rel: RelSD, NKeys: 2, Init: []int{1, 1}, Table: TPlain, Threads: [][]MIn{{opClear, second}, {w}}})
				add(&MapScen{Rel: RelSD, NKeys: 2, Init: []int{0, 1}, Table: TGrowArmed, Threads: [][]MIn{{on(opStore, 0), opClear}, {w}}, ExpectGrow: true})
			}
		}
		for _, m := range ms {
			m.Prop, m.Classes = "C14", ORace
			sc := m.Scenario()
			sc.PostRun = racePostRun
			out = append(out, sc)
		}
	}
	// Cache / CacheOf with pointer payloads, including the atomically swappable settings
	settings := []CIn{{Op: CSetDefaultExpiration, D: 50}, {Op: CDefaultExpiration}, {Op: CSetCallback, CB: 2}, {Op: CSetCallback, CB: 0}, {Op: CItems}, {Op: CCount}}
	cops := append(append([]CIn{}, cacheOps...), settings...)
	cops = append(cops, CIn{Op: CSetDefault}, CIn{Op: CGetWithExpiration})
	for _, tw := range []int{0, 1} {
		var cs []*CacheScen
		add := func(c *CacheScen) { c.Twin = tw; c.Payload = true; cs = append(cs, c) }
		for i, a := range cops {
			for j, b := range cops {
				if j < i {
					continue
				}
				for _, ini := range []int{ILive, IExpired} {
					if lvl == 0 && ini == IExpired && !(a.Op == CDeleteExpired || b.Op == CDeleteExpired || a.Op == CGet || b.Op == CGet || a.Op == CGetOrSet) {
						continue
					}
					add(&CacheScen{Rel: RelSS, NKeys: 2, Init: []int{ini, IAbsent}, Table: TPlain, Callback: true, Threads: [][]CIn{{con(a, 0)}, {con(b, 0)}}})
				}
			}
		}
		for _, b := range []CIn{cGet, cSet, cDelExp, cRange, cClear} {
			add(&CacheScen{Rel: RelDD, NKeys: 2, Init: []int{IAbsent, ILive}, Table: TGrowArmed, Callback: true, Threads: [][]CIn{{con(cSet, 0)}, {con(b, 1)}}})
		}
		// the very first calls on a fresh cache come from two goroutines (whatever is built lazily on first use)
		firsts := []CIn{cSet, cGet, cGoS, cGoC, cDelete, cDelExp, cRange, cClear, cCount, {Op: CItems}}
		for i, a := range firsts {
			for j, b := range firsts {
				if j < i {
					continue
				}
				add(&CacheScen{Rel: RelSD, NKeys: 2, Init: []int{IAbsent, IAbsent}, Table: TPlain, Callback: false, Threads: [][]CIn{{con(a, 0)}, {con(b, 1)}}})
			}
		}
		for _, c := range cs {
			c.Prop, c.Classes = "C14", ORace
			sc := c.Scenario()
			sc.PostRun = racePostRun
			out = append(out, sc)
		}
	}
	return out
}

// freeRunningRace is the supplementary free-running stress of the same bodies (never decides).
func freeRunningRace() string {
	before := raceLog.size
	l := layoutFor(RelSD)
	for _, c := range []ContainerKind{CMapP, CMapOfIntP} {
		m := newContainer(c, l)
		var wg sync.WaitGroup
		for g := 0; g < 16; g++ {
			wg.Add(1)
			go func(g int) {
				defer wg.Done()
				for i := 0; i < 3000; i++ {
					k := (g + i) % 40
					switch i % 7 {
					case 0:
						m.Store(k, g*1000+i+1)
					case 1:
						m.Load(k)
					case 2:
						m.Delete(k)
					case 3:
						m.LoadOrStore(k, i+1)
					case 4:
						m.Range(func(k, v int) bool { return true })
					case 5:
						m.Compute(k, func(o int, l bool) (int, bool) { return o + 1, false })
					case 6:
						if i%700 == 6 {
							m.Clear()
						}
						m.Size()
					}
				}
			}(g)
		}
		wg.Wait()
	}
	_ = before
	return racePostRun()
}

func init() {
	scenarioGens["C14"] = genC14
	checks["C14"] = func(rc *runCtx) int {
		if !sched.RaceBuild {
			fmt.Fprintln(os.Stderr, "INFRASTRUCTURE: C14 needs a -race build")
			return 2
		}
		return runE1Check(rc, append(append([]string{}, e1Assumptions...),
			"binary built with -race; scheduler hand-offs hidden from the detector (runtime.RaceDisable/RaceEnable), scheduler bookkeeping in go:norace functions; the detector therefore sees only the synchronisation performed by the code under test",
			"values are pointers to memory initialised with plain writes just before the call and read with plain reads after retrieval",
			"2 threads (thorough: 3 for resize families); 64 goroutines are not reached; the race detector's bounded shadow history is not an issue at < 10^3 accesses per execution"), nil)
	}
}
