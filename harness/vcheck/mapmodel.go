package main

import (
	"fmt"
	"strings"

	"github.com/anishathalye/porcupine"
)

// ---- sequential reference for Map / MapOf: a plain map over a small key alphabet ----

const NK = 6 // max keys of a scenario alphabet

type MOp uint8

const (
	MLoad MOp = iota
	MStore
	MLoadOrStore
	MLoadAndStore
	MLoadOrCompute
	MCompute
	MLoadAndDelete
	MDelete
	MClear
	MRange      // a whole traversal (expanded per key before checking)
	MRangeVisit // pseudo-op: what one traversal reported for one key
	MSize
	MRangeMut // a traversal whose visitor mutated the container (only structural checks apply)
)

var mopNames = [...]string{"Load", "Store", "LoadOrStore", "LoadAndStore", "LoadOrCompute", "Compute", "LoadAndDelete", "Delete", "Clear", "Range", "RangeVisit", "Size", "RangeWithMutatingVisitor"}

func (o MOp) String() string {
	if int(o) >= len(mopNames) {
		return mopName(o)
	}
	return mopNames[o]
}

// user function shapes for Compute
type FnKind uint8

const (
	FnNone         FnKind = iota
	FnSet                 // (V, false)
	FnDel                 // (V, true): delete, returning a non-zero value
	FnInc                 // (old+1 | 1, false)
	FnSetIfAbsent         // loaded ? (old, false) : (V, false)
	FnDelIfPresent        // loaded ? (0, true) : (V, false)  -- never mind V when absent: stores V
)

var fnNames = [...]string{"", "set", "del", "inc", "setIfAbsent", "delIfPresent"}

type MIn struct {
	Op MOp
	K  int
	V  int
	Fn FnKind
}

func (in MIn) String() string {
	switch in.Op {
	case MLoad, MLoadAndDelete, MDelete, MRangeVisit:
		return fmt.Sprintf("%s(k%d)", in.Op, in.K)
	case MStore, MLoadOrStore, MLoadAndStore, MLoadOrCompute:
		return fmt.Sprintf("%s(k%d,%d)", in.Op, in.K, in.V)
	case MCompute:
		return fmt.Sprintf("Compute(k%d,%s %d)", in.K, fnNames[in.Fn], in.V)
	}
	return in.Op.String()
}

// MOut is everything observable about one call.
type MOut struct {
	V       int
	Ok      bool
	FnCalls int
	FnOld   int
	FnLd    bool
}

func (o MOut) String() string {
	s := fmt.Sprintf("(%d,%v)", o.V, o.Ok)
	if o.FnCalls > 0 {
		s += fmt.Sprintf(" fn×%d(old=%d,loaded=%v)", o.FnCalls, o.FnOld, o.FnLd)
	}
	return s
}

type MState [NK]int32

// applyFn evaluates a user-function shape.
func applyFn(fn FnKind, v int, old int, loaded bool) (int, bool) {
	switch fn {
	case FnSet:
		return v, false
	case FnDel:
		return v, true
	case FnInc:
		if loaded {
			return old + 1, false
		}
		return 1, false
	case FnSetIfAbsent:
		if loaded {
			return old, false
		}
		return v, false
	case FnDelIfPresent:
		if loaded {
			return 0, true
		}
		return v, false
	}
	panic("bad fn")
}

// mapApply is the sequential specification: expected output and next state.
func mapApply(s MState, in MIn) (MOut, MState) {
	cur := int(s[in.K%NK])
	has := cur != 0
	k := in.K
	switch in.Op {
	case MLoad, MRangeVisit:
		return MOut{V: cur, Ok: has}, s
	case MStore:
		s[k] = int32(in.V)
		return MOut{}, s
	case MLoadOrStore:
		if has {
			return MOut{V: cur, Ok: true}, s
		}
		s[k] = int32(in.V)
		return MOut{V: in.V, Ok: false}, s
	case MLoadAndStore:
		s[k] = int32(in.V)
		if has {
			return MOut{V: cur, Ok: true}, s
		}
		return MOut{V: in.V, Ok: false}, s
	case MLoadOrCompute:
		if has {
			return MOut{V: cur, Ok: true}, s
		}
		s[k] = int32(in.V)
		return MOut{V: in.V, Ok: false, FnCalls: 1}, s
	case MCompute:
		nv, del := applyFn(in.Fn, in.V, cur, has)
		out := MOut{FnCalls: 1, FnOld: cur, FnLd: has}
		if del {
			if has {
				s[k] = 0
				out.V = cur
			}
			return out, s
		}
		s[k] = int32(nv)
		out.V, out.Ok = nv, true
		return out, s
	case MLoadAndDelete:
		s[k] = 0
		return MOut{V: cur, Ok: has}, s
	case MDelete:
		s[k] = 0
		return MOut{}, s
	case MClear:
		return MOut{}, MState{}
	}
	panic("mapApply: bad op " + in.Op.String())
}

func makeMapModel(checkFn bool) porcupine.Model {
	return porcupine.Model{
		Init: func() interface{} { return MState{} },
		Step: func(state, input, output interface{}) (bool, interface{}) {
			exp, ns := mapApply(state.(MState), input.(MIn))
			if !checkFn {
				exp.FnCalls, exp.FnOld, exp.FnLd = 0, 0, false
			}
			return exp == output.(MOut), ns
		},
		Equal: func(a, b interface{}) bool { return a.(MState) == b.(MState) },
		DescribeOperation: func(in, out interface{}) string {
			return fmt.Sprintf("%v -> %v", in, out)
		},
	}
}

// ---- histories ----

type HOp struct {
	Thread int
	In     interface{}
	Out    interface{}
	Call   int64
	Ret    int64
}

func (h HOp) String() string {
	return fmt.Sprintf("T%d [%d,%d] %v -> %v", h.Thread, h.Call, h.Ret, h.In, h.Out)
}

// canonical text of a history: the operations with their results plus the real-time precedence relation
// (which call returned before which other call was invoked) - that is all linearizability depends on
func histKey(ops []HOp) string {
	var sb strings.Builder
	for _, o := range ops {
		fmt.Fprintf(&sb, "%d|%v|%v;", o.Thread, o.In, o.Out)
	}
	bits := make([]byte, 0, len(ops)*len(ops)/8+1)
	var cur byte
	n := 0
	for i := range ops {
		for j := range ops {
			if i == j {
				continue
			}
			cur <<= 1
			if ops[i].Ret < ops[j].Call {
				cur |= 1
			}
			n++
			if n%8 == 0 {
				bits = append(bits, cur)
				cur = 0
			}
		}
	}
	bits = append(bits, cur)
	sb.Write(bits)
	return sb.String()
}

type linChecker struct {
	model   porcupine.Model
	cache   map[string]bool
	Checked int // distinct histories handed to porcupine
}

func newLinChecker(m porcupine.Model) *linChecker {
	return &linChecker{model: m, cache: map[string]bool{}}
}

func (lc *linChecker) Check(ops []HOp) bool {
	k := histKey(ops)
	if v, ok := lc.cache[k]; ok {
		return v
	}
	if len(lc.cache) > 300_000 {
		lc.cache = map[string]bool{} // bounded memory: verdicts are recomputed if they come up again
	}
	pops := make([]porcupine.Operation, len(ops))
	for i, o := range ops {
		pops[i] = porcupine.Operation{ClientId: o.Thread, Input: o.In, Output: o.Out, Call: o.Call, Return: o.Ret}
	}
	ok := porcupine.CheckOperations(lc.model, pops)
	lc.cache[k] = ok
	lc.Checked++
	return ok
}
