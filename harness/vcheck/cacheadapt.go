package main

import (
	"fmt"
	"sort"
	"time"

	cache "github.com/fufuok/cache"
	"github.com/fufuok/cache/internal/xsync"
)

// CacheLike is the common surface of Cache and CacheOf instantiations over
// small integer key indices and integer value ids.
type CacheLike interface {
	Set(k, v int, d time.Duration)
	SetDefault(k, v int)
	SetForever(k, v int)
	Get(k int) (int, bool)
	GetWithExpiration(k int) (int, time.Time, bool)
	GetWithTTL(k int) (int, time.Duration, bool)
	GetOrSet(k, v int, d time.Duration) (int, bool)
	GetAndSet(k, v int, d time.Duration) (int, bool)
	GetAndRefresh(k int, d time.Duration) (int, bool)
	GetOrCompute(k int, fn func() int, d time.Duration) (int, bool)
	Compute(k int, fn func(old int, loaded bool) (int, bool), d time.Duration) (int, bool)
	GetAndDelete(k int) (int, bool)
	Delete(k int)
	DeleteExpired()
	Range(fn func(k, v int) bool)
	RangeNil()
	Items() map[int]int
	Clear()
	Count() int
	DefaultExpiration() time.Duration
	SetDefaultExpiration(d time.Duration)
	SetEvictedCallback(fn func(k, v int))
	HasEvictedCallback() bool
	Physical() map[int]PhysEntry
	Stats() xsync.MapStats
}

type PhysEntry struct {
	V int
	E int64
}

// CacheCfg selects the twin and the constructor variant.
type CacheCfg struct {
	Twin       int  // 0 Cache, 1 CacheOf[string,any], 2 CacheOf[int,int]
	UseDefault bool // NewDefault / NewOfDefault(defExp, interval, [cb])
	HasDef     bool
	Def        time.Duration
	HasIvl     bool
	Ivl        time.Duration
	HasMinCap  bool
	MinCap     int
	// Earlier: the same options given once more, EARLIER in the option list, with these values (the later
	// occurrence must win): WithDefaultExpiration(EarlierDef), WithCleanupInterval(EarlierIvl)
	Earlier    bool
	EarlierDef time.Duration
	EarlierIvl time.Duration
	Callback   func(k, v int) // installed at construction when non-nil
	Payload    bool           // values are pointers to freshly initialised memory (race check)
}

var twinNames = [...]string{"Cache", "CacheOf[string,any]", "CacheOf[int,int]"}

func (c CacheCfg) String() string {
	s := twinNames[c.Twin]
	if c.UseDefault {
		s += fmt.Sprintf(".NewDefault(%v,%v", c.Def, c.Ivl)
		if c.Callback != nil {
			s += ",cb"
		}
		return s + ")"
	}
	s += ".New("
	if c.Earlier {
		s += fmt.Sprintf("earlier: def=%v ivl=%v; ", c.EarlierDef, c.EarlierIvl)
	}
	if c.HasDef {
		s += fmt.Sprintf("def=%v ", c.Def)
	}
	if c.HasIvl {
		s += fmt.Sprintf("ivl=%v ", c.Ivl)
	}
	if c.HasMinCap {
		s += fmt.Sprintf("cap=%d ", c.MinCap)
	}
	if c.Callback != nil {
		s += "cb"
	}
	return s + ")"
}

// installCacheLayout makes both the string Map and the default hasher of MapOf
// use the given layout (keys are "k<i>" / i).
func installCacheLayout(l *Layout) {
	xsync.VerifSeed = seedSequence()
	if l == nil {
		xsync.VerifHashString = nil
		xsync.VerifHasher = nil
		return
	}
	lay := *l
	xsync.VerifHashString = func(s string, seed uint64) uint64 { return lay.hashMapSeeded(keyIndex(s), seed) }
	xsync.VerifHasher = func(zero interface{}) interface{} {
		switch zero.(type) {
		case string:
			return func(k string, seed uint64) uint64 { return lay.hashMapOfSeeded(keyIndex(k), seed) }
		case int:
			return func(k int, seed uint64) uint64 { return lay.hashMapOfSeeded(k, seed) }
		}
		return nil
	}
}

func newCache(cfg CacheCfg) CacheLike {
	switch cfg.Twin {
	case 0:
		ad := &cacheAdapter{}
		if cfg.Payload {
			ad.box, ad.unbox = boxP, unboxP
		}
		var ecb cache.EvictedCallback
		if cfg.Callback != nil {
			cb := cfg.Callback
			// the closure must not reference the adapter (and through it the cache): a cycle through an
			// object with a finalizer is never collected, and the janitor would never stop
			ub := unboxV
			if cfg.Payload {
				ub = unboxP
			}
			ecb = func(k string, v interface{}) { cb(keyIndex(k), ub(v)) }
		}
		var c cache.Cache
		if cfg.UseDefault {
			if ecb != nil {
				c = cache.NewDefault(cfg.Def, cfg.Ivl, ecb)
			} else {
				c = cache.NewDefault(cfg.Def, cfg.Ivl)
			}
		} else {
			var opts []cache.Option
			if cfg.Earlier {
				opts = append(opts, cache.WithDefaultExpiration(cfg.EarlierDef), cache.WithCleanupInterval(cfg.EarlierIvl))
			}
			if cfg.HasDef {
				opts = append(opts, cache.WithDefaultExpiration(cfg.Def))
			}
			if cfg.HasIvl {
				opts = append(opts, cache.WithCleanupInterval(cfg.Ivl))
			}
			if cfg.HasMinCap {
				opts = append(opts, cache.WithMinCapacity(cfg.MinCap))
			}
			if ecb != nil {
				opts = append(opts, cache.WithEvictedCallback(ecb))
			}
			c = cache.New(opts...)
		}
		ad.c = c
		return ad
	case 1:
		if cfg.Payload {
			return newCacheOf[string, *payload](cfg, keyName, keyIndex, newPayload, readPayload)
		}
		return newCacheOf[string, interface{}](cfg, keyName, keyIndex, boxV, unboxV)
	case 2:
		id := func(x int) int { return x }
		return newCacheOf[int, int](cfg, id, id, id, id)
	}
	panic("bad twin")
}

// ---- Cache ----

type cacheAdapter struct {
	c     cache.Cache
	box   func(int) interface{}
	unbox func(interface{}) int
}

func (a *cacheAdapter) bx(v int) interface{} {
	if a.box != nil {
		return a.box(v)
	}
	return boxV(v)
}

func (a *cacheAdapter) ub(x interface{}) int {
	if a.unbox != nil {
		return a.unbox(x)
	}
	return unboxV(x)
}

func (a *cacheAdapter) Set(k, v int, d time.Duration) { a.c.Set(keyName(k), a.bx(v), d) }
func (a *cacheAdapter) SetDefault(k, v int)           { a.c.SetDefault(keyName(k), a.bx(v)) }
func (a *cacheAdapter) SetForever(k, v int)           { a.c.SetForever(keyName(k), a.bx(v)) }
func (a *cacheAdapter) Get(k int) (int, bool) {
	v, ok := a.c.Get(keyName(k))
	return a.ub(v), ok
}
func (a *cacheAdapter) GetWithExpiration(k int) (int, time.Time, bool) {
	v, t, ok := a.c.GetWithExpiration(keyName(k))
	return a.ub(v), t, ok
}
func (a *cacheAdapter) GetWithTTL(k int) (int, time.Duration, bool) {
	v, t, ok := a.c.GetWithTTL(keyName(k))
	return a.ub(v), t, ok
}
func (a *cacheAdapter) GetOrSet(k, v int, d time.Duration) (int, bool) {
	r, ok := a.c.GetOrSet(keyName(k), a.bx(v), d)
	return a.ub(r), ok
}
func (a *cacheAdapter) GetAndSet(k, v int, d time.Duration) (int, bool) {
	r, ok := a.c.GetAndSet(keyName(k), a.bx(v), d)
	return a.ub(r), ok
}
func (a *cacheAdapter) GetAndRefresh(k int, d time.Duration) (int, bool) {
	r, ok := a.c.GetAndRefresh(keyName(k), d)
	return a.ub(r), ok
}
func (a *cacheAdapter) GetOrCompute(k int, fn func() int, d time.Duration) (int, bool) {
	r, ok := a.c.GetOrCompute(keyName(k), func() interface{} { return a.bx(fn()) }, d)
	return a.ub(r), ok
}
func (a *cacheAdapter) Compute(k int, fn func(int, bool) (int, bool), d time.Duration) (int, bool) {
	r, ok := a.c.Compute(keyName(k), func(o interface{}, l bool) (interface{}, bool) {
		nv, del := fn(a.ub(o), l)
		return a.bx(nv), del
	}, d)
	return a.ub(r), ok
}
func (a *cacheAdapter) GetAndDelete(k int) (int, bool) {
	r, ok := a.c.GetAndDelete(keyName(k))
	return a.ub(r), ok
}
func (a *cacheAdapter) Delete(k int)   { a.c.Delete(keyName(k)) }
func (a *cacheAdapter) DeleteExpired() { a.c.DeleteExpired() }
func (a *cacheAdapter) Range(fn func(k, v int) bool) {
	a.c.Range(func(k string, v interface{}) bool { return fn(keyIndex(k), a.ub(v)) })
}
func (a *cacheAdapter) RangeNil() { a.c.Range(nil) }
func (a *cacheAdapter) Items() map[int]int {
	out := map[int]int{}
	for k, v := range a.c.Items() {
		out[keyIndex(k)] = a.ub(v)
	}
	return out
}
func (a *cacheAdapter) Clear()                               { a.c.Clear() }
func (a *cacheAdapter) Count() int                           { return a.c.Count() }
func (a *cacheAdapter) DefaultExpiration() time.Duration     { return a.c.DefaultExpiration() }
func (a *cacheAdapter) SetDefaultExpiration(d time.Duration) { a.c.SetDefaultExpiration(d) }
func (a *cacheAdapter) SetEvictedCallback(fn func(k, v int)) {
	if fn == nil {
		a.c.SetEvictedCallback(nil)
		return
	}
	// the closure must not capture the adapter (adapter -> cache -> callback -> adapter is a cycle through an
	// object with a finalizer: never collected)
	ub := a.unbox
	if ub == nil {
		ub = unboxV
	}
	a.c.SetEvictedCallback(func(k string, v interface{}) { fn(keyIndex(k), ub(v)) })
}
func (a *cacheAdapter) HasEvictedCallback() bool { return a.c.EvictedCallback() != nil }
func (a *cacheAdapter) Physical() map[int]PhysEntry {
	out := map[int]PhysEntry{}
	for k, e := range cache.VerifPhysical(a.c) {
		out[keyIndex(k)] = PhysEntry{a.ub(e.V), e.E}
	}
	return out
}
func (a *cacheAdapter) Stats() xsync.MapStats { return cache.VerifStats(a.c) }

// ---- CacheOf[K,V] ----

type cacheOfAdapter[K comparable, V any] struct {
	c     cache.CacheOf[K, V]
	toK   func(int) K
	fromK func(K) int
	toV   func(int) V
	fromV func(V) int
}

func newCacheOf[K comparable, V any](cfg CacheCfg, toK func(int) K, fromK func(K) int, toV func(int) V, fromV func(V) int) CacheLike {
	var ecb cache.EvictedCallbackOf[K, V]
	if cfg.Callback != nil {
		cb := cfg.Callback
		ecb = func(k K, v V) { cb(fromK(k), fromV(v)) }
	}
	var c cache.CacheOf[K, V]
	if cfg.UseDefault {
		if ecb != nil {
			c = cache.NewOfDefault[K, V](cfg.Def, cfg.Ivl, ecb)
		} else {
			c = cache.NewOfDefault[K, V](cfg.Def, cfg.Ivl)
		}
	} else {
		var opts []cache.OptionOf[K, V]
		if cfg.Earlier {
			opts = append(opts, cache.WithDefaultExpirationOf[K, V](cfg.EarlierDef), cache.WithCleanupIntervalOf[K, V](cfg.EarlierIvl))
		}
		if cfg.HasDef {
			opts = append(opts, cache.WithDefaultExpirationOf[K, V](cfg.Def))
		}
		if cfg.HasIvl {
			opts = append(opts, cache.WithCleanupIntervalOf[K, V](cfg.Ivl))
		}
		if cfg.HasMinCap {
			opts = append(opts, cache.WithMinCapacityOf[K, V](cfg.MinCap))
		}
		if ecb != nil {
			opts = append(opts, cache.WithEvictedCallbackOf[K, V](ecb))
		}
		c = cache.NewOf[K, V](opts...)
	}
	return &cacheOfAdapter[K, V]{c, toK, fromK, toV, fromV}
}

func (a *cacheOfAdapter[K, V]) Set(k, v int, d time.Duration) { a.c.Set(a.toK(k), a.toV(v), d) }
func (a *cacheOfAdapter[K, V]) SetDefault(k, v int)           { a.c.SetDefault(a.toK(k), a.toV(v)) }
func (a *cacheOfAdapter[K, V]) SetForever(k, v int)           { a.c.SetForever(a.toK(k), a.toV(v)) }
func (a *cacheOfAdapter[K, V]) Get(k int) (int, bool) {
	v, ok := a.c.Get(a.toK(k))
	return a.fromV(v), ok
}
func (a *cacheOfAdapter[K, V]) GetWithExpiration(k int) (int, time.Time, bool) {
	v, t, ok := a.c.GetWithExpiration(a.toK(k))
	return a.fromV(v), t, ok
}
func (a *cacheOfAdapter[K, V]) GetWithTTL(k int) (int, time.Duration, bool) {
	v, t, ok := a.c.GetWithTTL(a.toK(k))
	return a.fromV(v), t, ok
}
func (a *cacheOfAdapter[K, V]) GetOrSet(k, v int, d time.Duration) (int, bool) {
	r, ok := a.c.GetOrSet(a.toK(k), a.toV(v), d)
	return a.fromV(r), ok
}
func (a *cacheOfAdapter[K, V]) GetAndSet(k, v int, d time.Duration) (int, bool) {
	r, ok := a.c.GetAndSet(a.toK(k), a.toV(v), d)
	return a.fromV(r), ok
}
func (a *cacheOfAdapter[K, V]) GetAndRefresh(k int, d time.Duration) (int, bool) {
	r, ok := a.c.GetAndRefresh(a.toK(k), d)
	return a.fromV(r), ok
}
func (a *cacheOfAdapter[K, V]) GetOrCompute(k int, fn func() int, d time.Duration) (int, bool) {
	r, ok := a.c.GetOrCompute(a.toK(k), func() V { return a.toV(fn()) }, d)
	return a.fromV(r), ok
}
func (a *cacheOfAdapter[K, V]) Compute(k int, fn func(int, bool) (int, bool), d time.Duration) (int, bool) {
	r, ok := a.c.Compute(a.toK(k), func(o V, l bool) (V, bool) {
		nv, del := fn(a.fromV(o), l)
		return a.toV(nv), del
	}, d)
	return a.fromV(r), ok
}
func (a *cacheOfAdapter[K, V]) GetAndDelete(k int) (int, bool) {
	r, ok := a.c.GetAndDelete(a.toK(k))
	return a.fromV(r), ok
}
func (a *cacheOfAdapter[K, V]) Delete(k int)   { a.c.Delete(a.toK(k)) }
func (a *cacheOfAdapter[K, V]) DeleteExpired() { a.c.DeleteExpired() }
func (a *cacheOfAdapter[K, V]) Range(fn func(k, v int) bool) {
	a.c.Range(func(k K, v V) bool { return fn(a.fromK(k), a.fromV(v)) })
}
func (a *cacheOfAdapter[K, V]) RangeNil() { a.c.Range(nil) }
func (a *cacheOfAdapter[K, V]) Items() map[int]int {
	out := map[int]int{}
	for k, v := range a.c.Items() {
		out[a.fromK(k)] = a.fromV(v)
	}
	return out
}
func (a *cacheOfAdapter[K, V]) Clear()                               { a.c.Clear() }
func (a *cacheOfAdapter[K, V]) Count() int                           { return a.c.Count() }
func (a *cacheOfAdapter[K, V]) DefaultExpiration() time.Duration     { return a.c.DefaultExpiration() }
func (a *cacheOfAdapter[K, V]) SetDefaultExpiration(d time.Duration) { a.c.SetDefaultExpiration(d) }
func (a *cacheOfAdapter[K, V]) SetEvictedCallback(fn func(k, v int)) {
	if fn == nil {
		a.c.SetEvictedCallback(nil)
		return
	}
	fk, fv := a.fromK, a.fromV
	a.c.SetEvictedCallback(func(k K, v V) { fn(fk(k), fv(v)) })
}
func (a *cacheOfAdapter[K, V]) HasEvictedCallback() bool { return a.c.EvictedCallback() != nil }
func (a *cacheOfAdapter[K, V]) Physical() map[int]PhysEntry {
	out := map[int]PhysEntry{}
	for k, e := range cache.VerifPhysicalOf[K, V](a.c) {
		out[a.fromK(k)] = PhysEntry{a.fromV(e.V), e.E}
	}
	return out
}
func (a *cacheOfAdapter[K, V]) Stats() xsync.MapStats { return cache.VerifStatsOf[K, V](a.c) }

func sortedPairs(m map[int]int) string {
	ks := make([]int, 0, len(m))
	for k := range m {
		ks = append(ks, k)
	}
	sort.Ints(ks)
	s := ""
	for _, k := range ks {
		s += fmt.Sprintf("k%d=%d ", k, m[k])
	}
	return s
}
